#!/usr/bin/env python3
"""Sensitivity runner: applies catalogue mutants (exact string replacement) to /repo,
runs the relevant quick checks with their outputs redirected to a scratch VERIF_ROOT,
and ALWAYS reverts /repo (git checkout) afterwards.

  scripts/sensitivity.py [name-substring ...]     run matching mutants (default: all)
Writes mutants/RESULTS.md (table) and mutants/results.json.
"""
import importlib.util, json, os, shutil, subprocess, sys, time

ROOT = os.path.dirname(os.path.dirname(os.path.abspath(__file__)))
REPO = "/repo"
MUTROOT = os.path.join(ROOT, "target", "mutroot")

def sh(cmd, **kw):
    return subprocess.run(cmd, shell=True, stdout=subprocess.PIPE, stderr=subprocess.STDOUT, text=True, **kw)

def repo_clean():
    return sh(f"git -C {REPO} status --porcelain --untracked-files=no").stdout.strip() == ""

def main():
    spec = importlib.util.spec_from_file_location("catalogue", os.path.join(ROOT, "mutants", "catalogue.py"))
    cat = importlib.util.module_from_spec(spec); spec.loader.exec_module(cat)
    sel = sys.argv[1:]
    muts = [m for m in cat.MUTANTS if not sel or any(s in m["name"] for s in sel)]
    if not repo_clean():
        print("refusing: /repo has uncommitted changes"); sys.exit(2)
    resfile = os.path.join(ROOT, "mutants", "results.json")
    results = json.load(open(resfile)) if os.path.exists(resfile) else {}
    for m in muts:
        shutil.rmtree(MUTROOT, ignore_errors=True)
        os.makedirs(MUTROOT)
        shutil.copy(os.path.join(ROOT, "known_findings.json"), MUTROOT)
        if os.path.isdir(os.path.join(ROOT, "regress")):
            shutil.copytree(os.path.join(ROOT, "regress"), os.path.join(MUTROOT, "regress"))
        row = {"kind": m["kind"], "note": m.get("note", ""), "checks": {}}
        try:
            ok = True
            for f, old, new in m["edits"]:
                p = os.path.join(REPO, f)
                s = open(p).read()
                if s.count(old) != 1:
                    row["error"] = f"anchor occurs {s.count(old)} times in {f}"
                    ok = False
                    break
                open(p, "w").write(s.replace(old, new))
            if ok:
                # the mutant must still compile and pass the existing tests
                t = sh(f"cd {REPO} && cargo test --workspace --no-fail-fast --offline 2>&1 | grep -E '^test result|^error' ")
                row["repo_tests"] = "pass" if ("error" not in t.stdout and "FAILED" not in t.stdout and "failed; " in t.stdout and all(" 0 failed" in l for l in t.stdout.splitlines() if l.startswith("test result"))) else "FAIL: " + t.stdout[-300:]
                for prop in m["props"]:
                    t0 = time.time()
                    r = sh(f"cd {ROOT} && VERIF_ROOT_OVERRIDE={MUTROOT} ./check {prop} quick")
                    viol = [l for l in r.stdout.splitlines() if l.startswith("VIOLATION")]
                    clauses = [l.strip() for l in r.stdout.splitlines() if l.strip().startswith("clause=")]
                    row["checks"][prop] = {"exit": r.returncode, "violations": len(viol), "clauses": clauses[:3], "secs": round(time.time() - t0, 1),
                                           "tail": r.stdout[-400:] if r.returncode not in (0, 1) else ""}
        finally:
            sh(f"git -C {REPO} checkout -- .")
        results[m["name"]] = row
        det = {p: c["exit"] for p, c in row["checks"].items()}
        print(m["name"], m["kind"], row.get("error", ""), row.get("repo_tests", ""), det, flush=True)
        json.dump(results, open(resfile, "w"), indent=1)
    shutil.rmtree(MUTROOT, ignore_errors=True)
    # table
    lines = ["# Sensitivity results (scripts/sensitivity.py)", "",
             "`break` mutants must be detected (exit 1) by at least the first listed check within the quick budget; `keep` mutants are property-preserving and must stay quiet (exit 0).", "",
             "| mutant | kind | repo tests | per-check exit (1 = detected) | verdict | first clause |", "|---|---|---|---|---|---|"]
    for name, row in results.items():
        exits = {p: c["exit"] for p, c in row["checks"].items()}
        if "error" in row:
            verdict = "ERROR " + row["error"]
        elif row["kind"] == "break":
            verdict = "detected" if any(e == 1 for e in exits.values()) else "MISSED"
        else:
            verdict = "quiet" if all(e == 0 for e in exits.values()) else "FALSE ALARM"
        first = next((c["clauses"][0] for c in row["checks"].values() if c["clauses"]), "")
        lines.append(f"| {name} | {row['kind']} | {row.get('repo_tests','')[:12]} | {exits} | {verdict} | {first[:110]} |")
    open(os.path.join(ROOT, "mutants", "RESULTS.md"), "w").write("\n".join(lines) + "\n")

if __name__ == "__main__":
    main()
