#!/bin/bash
# try_patch.sh <patch> <check...> : apply to /repo, run quick checks into a scratch root, always revert
patch=$1; shift
cd /verif
[ -n "$(git -C /repo status --porcelain --untracked-files=no)" ] && { echo "repo dirty"; exit 2; }
git -C /repo apply "$patch" || exit 1
for p in "$@"; do
  rm -rf target/tryroot; mkdir -p target/tryroot; cp known_findings.json target/tryroot/; cp -r regress target/tryroot/
  out=$(VERIF_ROOT_OVERRIDE=/verif/target/tryroot ./check $p quick 2>&1); code=$?
  echo "$p exit=$code $(echo "$out" | grep -E 'clause=' | head -2 | tr '\n' ' ')"
done
git -C /repo checkout -- .
rm -rf target/tryroot
