#!/bin/bash
# runs every registered quick (or thorough) check; prints one line per check
cd "$(dirname "$0")/.."
tier=${1:-quick}
fail=0
for p in $(python3 -c "import json;print(' '.join(c['property_id'] for c in json.load(open('MANIFEST.json'))['checks']))"); do
  out=$(./check $p $tier 2>&1); code=$?
  echo "$p exit=$code $(echo "$out" | grep -E "^\[$p\] runs=" | tail -1)"
  if [ $code -ne 0 ]; then echo "$out" | grep -E "VIOLATION|HARNESS|clause=" | head -5; fail=1; fi
done
exit $fail
