#!/usr/bin/env python3
"""Parallel evaluation of changes (seeded patches and catalogue mutants) WITHOUT touching /repo.

Each of N workers owns a scratch tree under /tmp/vpar-<w>/:
  repo/    git worktree of /repo HEAD (the change is applied here and reverted with `git checkout -- .`)
  sim/     copy of /verif/sim whose path dependencies and build.rs point at the scratch repo
  data/    copy of /verif/data (embedded grammar snapshot)
  target/  its own cargo target dir;  root/  VERIF_ROOT with known_findings.json + regress/
The verdict for one change = the quick check(s) of its property run by the scratch simulator binary.

  scripts/par_eval.py seeded [substr...]     -> seeded/RESULTS.md
  scripts/par_eval.py mutants [substr...]    -> mutants/RESULTS.md, mutants/results.json
Scratch trees are removed at the end (and `git worktree prune` is run).
"""
import importlib.util, json, os, queue, shutil, subprocess, sys, threading, time

ROOT = os.path.dirname(os.path.dirname(os.path.abspath(__file__)))
REPO = "/repo"
NW = int(os.environ.get("VPAR_WORKERS", "4"))

def sh(cmd, env=None):
    e = dict(os.environ)
    if env:
        e.update(env)
    return subprocess.run(cmd, shell=True, stdout=subprocess.PIPE, stderr=subprocess.STDOUT, text=True, env=e)

def setup(w):
    d = f"/tmp/vpar-{w}"
    sh(f"git -C {REPO} worktree remove --force {d}/repo; rm -rf {d}")
    os.makedirs(d)
    r = sh(f"git -C {REPO} worktree add -q --detach {d}/repo HEAD")
    assert r.returncode == 0, r.stdout
    rev = os.environ.get("VPAR_VERIF_REV")
    if rev:
        # the simulator as it stood at an earlier commit of /verif (how much did the checks catch back then?)
        sh(f"mkdir -p {d}/old && git -C {ROOT} archive {rev} sim data | tar -x -C {d}/old && mv {d}/old/sim {d}/sim && mv {d}/old/data {d}/data")
        shutil.copy(os.path.join(ROOT, "sim", "build.rs"), f"{d}/sim/build.rs")  # same generator, honours VERIF_REPO
    else:
        shutil.copytree(os.path.join(ROOT, "sim"), f"{d}/sim", ignore=shutil.ignore_patterns("target"))
        shutil.copytree(os.path.join(ROOT, "data"), f"{d}/data")
    ct = open(f"{d}/sim/Cargo.toml").read().replace('path = "/repo/rspirv"', f'path = "{d}/repo/rspirv"').replace('path = "/repo/spirv"', f'path = "{d}/repo/spirv"')
    open(f"{d}/sim/Cargo.toml", "w").write(ct)
    cfg = open(f"{d}/sim/.cargo/config.toml").read().replace('target-dir = "../target"', f'target-dir = "{d}/target"')
    open(f"{d}/sim/.cargo/config.toml", "w").write(cfg)
    os.makedirs(f"{d}/root")
    return d

def setup_persistent(w):
    """ad-hoc scratch tree kept between calls (mode `patch`); simulator sources re-synced from /verif each time"""
    d = f"/tmp/vpar-{w}"
    if not os.path.isdir(f"{d}/repo"):
        return setup(w)
    sh(f"git -C {d}/repo checkout -q --detach $(git -C {REPO} rev-parse HEAD) && git -C {d}/repo checkout -- . && git -C {d}/repo clean -fdq")
    sh(f"rsync -a --delete --exclude target --exclude Cargo.toml --exclude .cargo {ROOT}/sim/ {d}/sim/ && rsync -a --delete {ROOT}/data/ {d}/data/")
    return d

def env_of(d):
    return {"VERIF_REPO": f"{d}/repo", "CARGO_NET_OFFLINE": "true", "VERIF_ROOT": f"{d}/root", "VERIF_DIS_BIN": f"{d}/target-dis/release/rspirv-dis", "VERIF_WORKERS": os.environ.get("VPAR_CHECK_WORKERS", "8")}

def run_checks(d, checks):
    """build scratch sim (+ dis when needed) against the scratch repo as it is now; run checks; return {check: (exit, clauses, tail)}"""
    env = env_of(d)
    b = sh(f"cd {d}/sim && cargo build --release --offline 2>&1 | tail -5", env)
    if not os.path.exists(f"{d}/target/release/sim") or "error" in b.stdout:
        return {c: (2, [], "build failed: " + b.stdout[-300:], -1) for c in checks}
    if "C20" in checks:
        sh(f"cd {d}/repo && CARGO_TARGET_DIR={d}/target-dis cargo build -p rspirv-dis --release --offline 2>&1 | tail -3", env)
    out = {}
    for c in checks:
        shutil.rmtree(f"{d}/root", ignore_errors=True)
        os.makedirs(f"{d}/root")
        shutil.copy(os.path.join(ROOT, "known_findings.json"), f"{d}/root")
        shutil.copytree(os.path.join(ROOT, "regress"), f"{d}/root/regress")
        r = sh(f"cd {d} && {d}/target/release/sim {c} quick", env)
        clauses = [l.strip() for l in r.stdout.splitlines() if l.strip().startswith("clause=")]
        import re
        m = re.search(r"violating_runs=(\d+)", r.stdout)
        out[c] = (r.returncode, clauses[:3], r.stdout[-300:] if r.returncode not in (0, 1) else "", int(m.group(1)) if m else -1)
        if r.returncode == 1:
            break
    return out

def worker(w, jobs, results, lock):
    d = setup(w)
    # warm build on the clean tree
    run_checks(d, [])
    while True:
        try:
            job = jobs.get_nowait()
        except queue.Empty:
            break
        name, kind, checks, apply_fn = job
        t0 = time.time()
        ok, msg = apply_fn(f"{d}/repo")
        if not ok:
            res = {"error": msg}
        else:
            res = {"checks": run_checks(d, checks)}
            if kind == "mutant":
                t = sh(f"cd {d}/repo && CARGO_TARGET_DIR={d}/target-repo cargo test --workspace --no-fail-fast --offline 2>&1 | grep -E '^test result|^error'")
                green = "error" not in t.stdout and "FAILED" not in t.stdout and "test result" in t.stdout
                res["repo_tests"] = "pass" if green else "FAIL"
        sh(f"git -C {d}/repo checkout -- . && git -C {d}/repo clean -fdq")
        res["secs"] = round(time.time() - t0, 1)
        with lock:
            results[name] = res
            exits = {c: (v[0], v[3]) for c, v in res.get("checks", {}).items()}
            print(name, res.get("error", ""), res.get("repo_tests", ""), exits, flush=True)
    sh(f"git -C {REPO} worktree remove --force {d}/repo; rm -rf {d}")

def main():
    mode = sys.argv[1]
    sel = sys.argv[2:]
    if mode == "patch":
        # scripts/par_eval.py patch <patch file> <check>...   (scratch tree /tmp/vpar-adhoc is kept; remove with `patch-clean`)
        d = setup_persistent(os.environ.get("VPAR_ADHOC", "adhoc"))
        r = sh(f"git -C {d}/repo apply {os.path.abspath(sel[0])}")
        if r.returncode != 0:
            print("patch does not apply:", r.stdout); sys.exit(2)
        res = run_checks(d, sel[1:])
        sh(f"git -C {d}/repo checkout -- . && git -C {d}/repo clean -fdq")
        for c, v in res.items():
            print(c, "exit", v[0], "violating_runs", v[3], v[1][:2], v[2])
        return
    if mode == "patch-clean":
        for n in ("adhoc", os.environ.get("VPAR_ADHOC", "adhoc")):
            sh(f"git -C {REPO} worktree remove --force /tmp/vpar-{n}/repo; rm -rf /tmp/vpar-{n}; git -C {REPO} worktree prune")
        return
    jobs = queue.Queue()
    order = []
    if mode == "seeded":
        for dname in sorted(os.listdir(os.path.join(ROOT, "seeded"))):
            dd = os.path.join(ROOT, "seeded", dname)
            if not os.path.exists(os.path.join(dd, "meta.json")) or (sel and not any(s in dname for s in sel)):
                continue
            meta = json.load(open(os.path.join(dd, "meta.json")))
            prop = meta["property"]
            checks = [prop] + [c for c in meta.get("detected_by", []) if c != prop]
            def ap(repo, patch=os.path.join(dd, "patch.diff")):
                r = sh(f"git -C {repo} apply {patch}")
                return r.returncode == 0, r.stdout[-200:]
            jobs.put((dname, "seeded", checks, ap))
            order.append(dname)
    else:
        spec = importlib.util.spec_from_file_location("catalogue", os.path.join(ROOT, "mutants", "catalogue.py"))
        cat = importlib.util.module_from_spec(spec); spec.loader.exec_module(cat)
        for m in cat.MUTANTS:
            if sel and not any(s in m["name"] for s in sel):
                continue
            def ap(repo, m=m):
                for f, old, new in m["edits"]:
                    p = os.path.join(repo, f)
                    s = open(p).read()
                    if s.count(old) != 1:
                        return False, f"anchor occurs {s.count(old)} times in {f}"
                    open(p, "w").write(s.replace(old, new))
                return True, ""
            jobs.put((m["name"], "mutant", m["props"], ap))
            order.append(m["name"])
    results, lock = {}, threading.Lock()
    ths = [threading.Thread(target=worker, args=(w, jobs, results, lock)) for w in range(min(NW, len(order)))]
    for t in ths: t.start()
    for t in ths: t.join()
    sh(f"git -C {REPO} worktree prune")
    if mode == "seeded":
        lines = ["# Seeded changes (independent sub-agents, property text only) vs. the checks", "",
                 "Each change compiles, passes the repository's 82 tests and comes with a demonstration that fails with it and passes without it (confirmed when it was kept, see meta.json). Verdicts below are from `scripts/par_eval.py seeded` (scratch copies of /repo and the simulator; /repo itself untouched).", "",
                 "| change | property | quick check | violating runs in the batch | first clause reported | what it needs to manifest |", "|---|---|---|---|---|---|"]
        for d in order:
            res = results.get(d, {})
            meta = json.load(open(os.path.join(ROOT, "seeded", d, "meta.json")))
            chk = res.get("checks", {})
            hit = next(((c, v) for c, v in chk.items() if v[0] == 1), None)
            prop = meta["property"]
            if hit:
                verdict, clause = "detected", (hit[1][1][0] if hit[1][1] else "")
                pcol = prop if hit[0] == prop else f"{prop} (caught by {hit[0]})"
                nviol = hit[1][3]
            else:
                verdict, clause, pcol = "MISSED " + json.dumps({c: v[0] for c, v in chk.items()}) + res.get("error", ""), "", prop
                nviol = 0
            lines.append(f"| {d} | {pcol} | {verdict} | {nviol} | {clause[:120]} | {meta.get('needs_to_manifest','')[:220]}{' — ' + meta['history'] if 'history' in meta else ''} |")
            if not os.environ.get("VPAR_VERIF_REV"):
                meta["last_rerun"] = {"verdict": verdict, "clause": clause, "violating_runs": nviol}
                json.dump(meta, open(os.path.join(ROOT, "seeded", d, "meta.json"), "w"), indent=1)
        if not os.environ.get("VPAR_VERIF_REV"):
            path = os.path.join(ROOT, "seeded", "RESULTS.md")
            if sel and os.path.exists(path):
                # partial re-run: replace the rows of the evaluated changes, keep the others
                new_rows = {l.split("|")[1].strip(): l for l in lines if l.startswith("| C")}
                old = open(path).read().splitlines()
                merged = [new_rows.pop(l.split("|")[1].strip(), l) if l.startswith("| C") else l for l in old]
                merged += list(new_rows.values())
                open(path, "w").write("\n".join(merged) + "\n")
            else:
                open(path, "w").write("\n".join(lines) + "\n")
        missed = [l for l in lines if "| MISSED" in l]
        print(f"{len(order)} changes, {len(missed)} missed")
    else:
        resfile = os.path.join(ROOT, "mutants", "results.json")
        allres = json.load(open(resfile)) if os.path.exists(resfile) and sel else {}
        spec = importlib.util.spec_from_file_location("catalogue", os.path.join(ROOT, "mutants", "catalogue.py"))
        cat = importlib.util.module_from_spec(spec); spec.loader.exec_module(cat)
        kinds = {m["name"]: m for m in cat.MUTANTS}
        for n in order:
            r = results.get(n, {})
            allres[n] = {"kind": kinds[n]["kind"], "note": kinds[n].get("note", ""), "repo_tests": r.get("repo_tests", ""), "error": r.get("error", ""),
                         "checks": {c: {"exit": v[0], "clauses": v[1], "tail": v[2]} for c, v in r.get("checks", {}).items()}}
        json.dump(allres, open(resfile, "w"), indent=1)
        lines = ["# Sensitivity results (scripts/par_eval.py mutants)", "",
                 "`break` mutants must be detected (exit 1) by at least one listed check within the quick budget; `keep` mutants are property-preserving and must stay quiet (exit 0). `repo tests` says whether the repository's own 82 tests still pass with the mutant (many deliberately simple mutants do not; they are kept for the error paths they exercise).", "",
                 "| mutant | kind | repo tests | per-check exit (1 = detected) | verdict | first clause |", "|---|---|---|---|---|---|"]
        bad = 0
        for n, row in allres.items():
            exits = {p: c["exit"] for p, c in row["checks"].items()}
            if row.get("error"):
                verdict = "ERROR " + row["error"]; bad += 1
            elif row["kind"] == "break":
                verdict = "detected" if any(e == 1 for e in exits.values()) else "MISSED"
                bad += verdict == "MISSED"
            else:
                verdict = "quiet" if all(e == 0 for e in exits.values()) else "FALSE ALARM"
                bad += verdict != "quiet"
            first = next((c["clauses"][0] for c in row["checks"].values() if c["clauses"]), "")
            lines.append(f"| {n} | {row['kind']} | {row['repo_tests']} | {exits} | {verdict} | {first[:110]} |")
        open(os.path.join(ROOT, "mutants", "RESULTS.md"), "w").write("\n".join(lines) + "\n")
        print(f"{len(order)} mutants evaluated, {bad} not as expected")

if __name__ == "__main__":
    main()
