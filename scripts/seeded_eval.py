#!/usr/bin/env python3
"""Evaluate a seeded change produced by an independent sub-agent.

  scripts/seeded_eval.py <worktree> <n> <property> [extra checks...]

1. in the agent's worktree: patch applies; `cargo test --workspace --offline` passes with it (demo excluded);
   the demo fails with the patch and passes without it;
2. applies the patch to /repo, runs ./check <property> quick (and extra checks) with outputs redirected to a
   scratch VERIF_ROOT, ALWAYS reverts /repo;
3. writes /verif/seeded/<property>-<n>/{patch.diff, demo, notes.md, meta.json}.
"""
import json, os, shutil, subprocess, sys, time

ROOT = os.path.dirname(os.path.dirname(os.path.abspath(__file__)))
REPO = "/repo"

def sh(cmd, **kw):
    return subprocess.run(cmd, shell=True, stdout=subprocess.PIPE, stderr=subprocess.STDOUT, text=True, **kw)

def main():
    wt, n, prop = sys.argv[1], sys.argv[2], sys.argv[3]
    extra = [a for a in sys.argv[4:] if not a.startswith("--tag=")]
    tag = next((a.split("=", 1)[1] for a in sys.argv[4:] if a.startswith("--tag=")), "")
    out = os.path.join(wt, "out", n)
    patch = os.path.join(out, "patch.diff")
    demos = sorted([f for f in os.listdir(out) if f.startswith("seed_demo") or f.startswith("demo_")], key=lambda f: (not f.endswith(".sh"), f))
    assert os.path.exists(patch) and demos, (patch, demos)
    demo = demos[0]
    tgt = os.path.join(wt, "target")
    meta = {"property": prop, "source": f"independent sub-agent working in {wt} with only the property text", "ran": []}
    def note(cmd, res):
        meta["ran"].append({"cmd": cmd, "result": res})
    # --- 1. confirm in the agent's worktree -------------------------------------------------------
    sh(f"cd {wt} && git checkout -- . && git clean -fdq rspirv/tests dis 2>/dev/null")
    r = sh(f"cd {wt} && git apply --check {patch}")
    if r.returncode != 0:
        print("patch does not apply:", r.stdout); sys.exit(1)
    sh(f"cd {wt} && git apply {patch}")
    t = sh(f"cd {wt} && CARGO_TARGET_DIR={tgt} cargo test --workspace --offline 2>&1 | grep -E '^test result|^error|FAILED'")
    suite_ok = "error" not in t.stdout and "FAILED" not in t.stdout and "test result" in t.stdout
    note("cargo test --workspace --offline (patch applied, demo absent)", "all green" if suite_ok else "NOT green: " + t.stdout[-300:])
    def run_demo():
        if demo.endswith(".rs"):
            shutil.copy(os.path.join(out, demo), os.path.join(wt, "rspirv", "tests", demo))
            name = demo[:-3]
            r = sh(f"cd {wt} && CARGO_TARGET_DIR={tgt} cargo test --offline -p rspirv --test {name} 2>&1 | tail -15")
            os.remove(os.path.join(wt, "rspirv", "tests", demo))
            ok = "test result: ok" in r.stdout
            return ok, r.stdout[-400:]
        else:
            # run the script where the agent left it (scripts locate the repository root relative to themselves)
            r = sh(f"cd {wt} && (CARGO_TARGET_DIR={tgt} bash {os.path.join(out, demo)} > /tmp/seed-demo.out 2>&1; echo DEMO-EXIT=$?); tail -15 /tmp/seed-demo.out")
            return "DEMO-EXIT=0" in r.stdout, r.stdout[-400:]
    ok_with, txt_with = run_demo()
    note(f"demo {demo} with the patch", "fails (as required)" if not ok_with else "PASSES (unexpected)")
    sh(f"cd {wt} && git checkout -- .")
    ok_without, txt_without = run_demo()
    note(f"demo {demo} without the patch", "passes (as required)" if ok_without else "FAILS (unexpected): " + txt_without)
    confirmed = suite_ok and (not ok_with) and ok_without
    meta["confirmed"] = confirmed
    # --- 2. our checks against it -------------------------------------------------------------------
    detections = {}
    if os.environ.get("SEEDED_SCRATCH") == "1":
        # same verdict without touching /repo: the patch is applied to a scratch worktree of /repo HEAD and the
        # current simulator sources are built against that tree (scripts/par_eval.py patch)
        for p in [prop] + extra:
            t0 = time.time()
            r = sh(f"cd {ROOT} && scripts/par_eval.py patch {patch} {p}")
            line = next((l for l in r.stdout.splitlines() if l.startswith(p + " exit")), "")
            ex = int(line.split()[2]) if line else 2
            clauses = [c.strip(" '[],\"") for c in line.split("[", 1)[1].split("]")[0].split("', '")] if "[" in line else []
            clauses = [c for c in clauses if c]
            detections[p] = {"exit": ex, "clauses": clauses[:4], "detail": "", "secs": round(time.time() - t0, 1)}
            if ex not in (0, 1):
                detections[p]["tail"] = r.stdout[-500:]
            note(f"scratch worktree of /repo HEAD + patch.diff; sim {p} quick (scripts/par_eval.py patch)", f"exit {ex}" + (f" {clauses[0]}" if clauses else ""))
    elif sh(f"git -C {REPO} status --porcelain --untracked-files=no").stdout.strip():
        print("refusing: /repo dirty"); sys.exit(2)
    mutroot = os.path.join(ROOT, "target", "seedroot")
    try:
        if os.environ.get("SEEDED_SCRATCH") == "1":
            raise StopIteration
        r = sh(f"git -C {REPO} apply {patch}")
        if r.returncode != 0:
            print("patch does not apply to /repo:", r.stdout); sys.exit(1)
        for p in [prop] + extra:
            shutil.rmtree(mutroot, ignore_errors=True); os.makedirs(mutroot)
            shutil.copy(os.path.join(ROOT, "known_findings.json"), mutroot)
            if os.path.isdir(os.path.join(ROOT, "regress")):
                shutil.copytree(os.path.join(ROOT, "regress"), os.path.join(mutroot, "regress"))
            t0 = time.time()
            r = sh(f"cd {ROOT} && VERIF_ROOT_OVERRIDE={mutroot} ./check {p} quick")
            clauses = [l.strip() for l in r.stdout.splitlines() if l.strip().startswith("clause=")]
            details = [l.strip() for l in r.stdout.splitlines() if l.strip().startswith("detail:")]
            detections[p] = {"exit": r.returncode, "clauses": clauses[:4], "detail": (details[0][:300] if details else ""), "secs": round(time.time() - t0, 1)}
            if r.returncode not in (0, 1):
                detections[p]["tail"] = r.stdout[-500:]
            note(f"git -C /repo apply patch.diff; ./check {p} quick; git -C /repo checkout -- .", f"exit {r.returncode}" + (f" {clauses[0]}" if clauses else ""))
    except StopIteration:
        pass
    finally:
        if os.environ.get("SEEDED_SCRATCH") != "1":
            sh(f"git -C {REPO} checkout -- .")
            shutil.rmtree(mutroot, ignore_errors=True)
    meta["detected_by"] = [p for p, d in detections.items() if d["exit"] == 1]
    meta["checks"] = detections
    notes = open(os.path.join(out, "notes.md")).read() if os.path.exists(os.path.join(out, "notes.md")) else ""
    meta["needs_to_manifest"] = ""
    # --- 3. keep it ------------------------------------------------------------------------------------
    dest = os.path.join(ROOT, "seeded", f"{prop}-{tag + '-' if tag else ''}{n}")
    if tag:
        meta["round"] = tag
    if confirmed:
        os.makedirs(dest, exist_ok=True)
        shutil.copy(patch, os.path.join(dest, "patch.diff"))
        shutil.copy(os.path.join(out, demo), os.path.join(dest, demo))
        if notes:
            open(os.path.join(dest, "notes.md"), "w").write(notes)
        json.dump(meta, open(os.path.join(dest, "meta.json"), "w"), indent=1)
    print(json.dumps({"prop": prop, "n": n, "confirmed": confirmed, "detected_by": meta["detected_by"], "checks": {p: (d["exit"], d["clauses"][:1]) for p, d in detections.items()}}))

if __name__ == "__main__":
    main()
