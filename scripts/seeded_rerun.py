#!/usr/bin/env python3
"""Re-runs every kept seeded change (seeded/<id>-<n>/patch.diff) against the check of its property:
apply to /repo, ./check <prop> quick with outputs in a scratch VERIF_ROOT, ALWAYS revert. Writes seeded/RESULTS.md."""
import json, os, shutil, subprocess, sys, time
ROOT = os.path.dirname(os.path.dirname(os.path.abspath(__file__)))
REPO = "/repo"
def sh(cmd):
    return subprocess.run(cmd, shell=True, stdout=subprocess.PIPE, stderr=subprocess.STDOUT, text=True)
def main():
    sel = sys.argv[1:]
    if sh(f"git -C {REPO} status --porcelain --untracked-files=no").stdout.strip():
        print("refusing: /repo dirty"); sys.exit(2)
    rows = []
    for d in sorted(os.listdir(os.path.join(ROOT, "seeded"))):
        dd = os.path.join(ROOT, "seeded", d)
        if not os.path.isdir(dd) or not os.path.exists(os.path.join(dd, "meta.json")) or (sel and not any(s in d for s in sel)):
            continue
        meta = json.load(open(os.path.join(dd, "meta.json")))
        prop = meta["property"]
        mutroot = os.path.join(ROOT, "target", "seedroot")
        shutil.rmtree(mutroot, ignore_errors=True); os.makedirs(mutroot)
        shutil.copy(os.path.join(ROOT, "known_findings.json"), mutroot)
        shutil.copytree(os.path.join(ROOT, "regress"), os.path.join(mutroot, "regress"))
        try:
            r = sh(f"git -C {REPO} apply {dd}/patch.diff")
            if r.returncode != 0:
                rows.append((d, prop, "patch does not apply", "")); continue
            t0 = time.time()
            # the property's own check first, then any other check recorded as the one that catches it
            checks = [prop] + [c for c in meta.get("detected_by", []) if c != prop]
            for chk in checks:
                r = sh(f"cd {ROOT} && VERIF_ROOT_OVERRIDE={mutroot} ./check {chk} quick")
                clauses = [l.strip() for l in r.stdout.splitlines() if l.strip().startswith("clause=")]
                if r.returncode == 1:
                    break
            rows.append((d, prop if chk == prop else f"{prop} (caught by {chk})", f"exit {r.returncode}", clauses[0] if clauses else ""))
            meta["last_rerun"] = {"exit": r.returncode, "clause": clauses[0] if clauses else "", "secs": round(time.time() - t0, 1)}
            json.dump(meta, open(os.path.join(dd, "meta.json"), "w"), indent=1)
        finally:
            sh(f"git -C {REPO} checkout -- .")
            shutil.rmtree(mutroot, ignore_errors=True)
        print(rows[-1], flush=True)
    lines = ["# Seeded changes (independent sub-agents, property text only) vs. the checks", "",
             "Each change compiles, passes the repository's own 82 tests and comes with a demonstration that fails with it and passes without it (confirmed, see meta.json).", "",
             "| change | property | quick check | first clause reported | what it needs to manifest |", "|---|---|---|---|---|"]
    for d, prop, res, clause in rows:
        meta = json.load(open(os.path.join(ROOT, "seeded", d, "meta.json")))
        verdict = "detected" if res == "exit 1" else "MISSED (" + res + ")"
        lines.append(f"| {d} | {prop} | {verdict} | {clause[:120]} | {meta.get('needs_to_manifest','')[:200]}{' — ' + meta['history'] if 'history' in meta else ''} |")
    if not sel:
        open(os.path.join(ROOT, "seeded", "RESULTS.md"), "w").write("\n".join(lines) + "\n")
if __name__ == "__main__":
    main()
