//! Workload generator for binary streams: grammar-directed from the frozen
//! snapshot for any of the 787 opcodes, laid out as a SPIR-V module.  Draws
//! from the PRNG; the result is a concrete `Stream` stored in the trace.

use crate::acceptor::{spec_op_simple, TypeCtx, Width};
use crate::layout::{self, Lc};
use crate::model::*;
use crate::rng::Rng;
use crate::snapshot::{snap, Cat, KindId, Quant};

#[derive(Clone, Debug)]
pub struct ProdCfg {
    /// rough upper bound on instructions
    pub max_insts: usize,
    /// allow vendor / context-dependent opcodes (inside blocks) — parser-only properties
    pub allow_other: bool,
    /// max functions
    pub max_funcs: usize,
    /// probability (out of 16) that a string is multibyte / long
    pub exotic_strings: u64,
    /// allow OpLine/OpNoLine inside functions outside blocks (never for C01/C05 judged streams)
    pub spec_ops: bool,
    /// emit OpVariable/OpUndef/OpLine inside blocks and at module level
    pub ctx_dependent: bool,
    /// keep every result id unique
    pub max_variadic: u64,
    /// allow rare giant features (65k-word instructions, 65k+ byte strings, 300 distinct types, 66k tracked ids)
    pub giant: bool,
}

impl ProdCfg {
    pub fn parser_default(rng: &mut Rng) -> ProdCfg {
        ProdCfg {
            max_insts: rng.range(0, 24) as usize,
            allow_other: true,
            max_funcs: rng.range(0, 2) as usize,
            exotic_strings: rng.range(0, 8),
            spec_ops: true,
            ctx_dependent: true,
            max_variadic: rng.range(0, 4),
            giant: false,
        }
    }
}

pub struct Gen<'r> {
    pub rng: &'r mut Rng,
    pub next_id: u32,
    pub ids: Vec<u32>,
    pub tctx: TypeCtx,
    /// type ids by literal width class
    pub one_word_types: Vec<u32>,
    pub two_word_types: Vec<u32>,
    pub cfg: ProdCfg,
    /// Builder driver: every id must come from the pools (no forward / undefined references)
    pub no_forward: bool,
    /// Builder driver: ids never defined by any instruction (safe selectors / unknown types)
    pub untyped_pool: Vec<u32>,
    /// operand groups of the last generated instruction, one per logical operand of the grammar
    /// (result type / result id excluded)
    pub last_groups: Vec<Group>,
}

/// One logical operand of the grammar with the concrete items generated for it;
/// each item is the operand's own word(s) followed by the parameters it requires.
#[derive(Clone, Debug)]
pub struct Group {
    pub kind: KindId,
    pub quant: Quant,
    pub items: Vec<Vec<MOp>>,
}

const STR_SAMPLES: &[&str] = &["", "a", "ab", "abc", "abcd", "abcde", "main", "GLSL.std.450", "OpenCL.std", "é", "日本", "😀", "a\"b\\c", "x y", "SPV_KHR_x", "tab\there", "nl\nx", "line1\nline2", "\n", "a\nbcdefg", "\u{feff}", "\u{feff}abc", "ab\u{feff}", "NonSemantic.DebugPrintf", "NonSemantic.Shader.DebugInfo.100"];

impl<'r> Gen<'r> {
    pub fn new(rng: &'r mut Rng, cfg: ProdCfg) -> Gen<'r> {
        Gen {
            rng,
            next_id: 1,
            ids: vec![],
            tctx: TypeCtx::default(),
            one_word_types: vec![],
            two_word_types: vec![],
            cfg,
            no_forward: false,
            untyped_pool: vec![],
            last_groups: vec![],
        }
    }
    pub fn fresh(&mut self) -> u32 {
        let id = self.next_id;
        self.next_id += 1;
        if !self.no_forward {
            self.ids.push(id);
        }
        id
    }
    pub fn some_id(&mut self) -> u32 {
        if !self.no_forward && self.rng.chance(1, 40) {
            // ids are arbitrary 32-bit words to the parser: boundary values
            return *self.rng.pick(&[0u32, 0, 0x7FFF_FFFF, 0x8000_0000, 0xFFFF_FFFF]);
        }
        if !self.ids.is_empty() && (self.no_forward || self.rng.chance(7, 8)) {
            *self.rng.pick(&self.ids)
        } else {
            // forward / undefined reference: ids are not validated by rspirv
            self.next_id + self.rng.below(8) as u32
        }
    }
    pub fn string(&mut self) -> String {
        if self.cfg.exotic_strings > 0 && self.rng.chance(1, 12) {
            // a control character (U+0001 .. U+001F, U+007F: the bytes word-at-a-time NUL searches get wrong) somewhere
            // in a short string, at every byte offset modulo 4
            let n = self.rng.below(10) as usize;
            let at = self.rng.usize_below(n + 1);
            let mut st = String::new();
            for k in 0..=n {
                if k == at {
                    st.push(*self.rng.pick(&['\u{1}', '\u{1}', '\u{2}', '\u{7f}', '\u{80}', '\u{1f}', '\u{ff}', '\u{100}']));
                } else {
                    st.push((b'a' + self.rng.below(26) as u8) as char);
                }
            }
            return st;
        }
        if self.cfg.exotic_strings > 0 && self.rng.chance(1, 80) {
            // lengths at and around powers of two (stack buffers, small-string paths)
            let n = *self.rng.pick(&[63usize, 64, 65, 127, 128, 129, 255, 256, 257, 511, 512, 513, 1023, 1024, 1025, 2047, 2048, 4095, 4096, 4097]);
            return (0..n).map(|k| (b'a' + (k % 26) as u8) as char).collect();
        }
        if self.rng.below(16) < self.cfg.exotic_strings {
            match self.rng.below(3) {
                0 => {
                    let n = self.rng.range(9, 40) as usize;
                    (0..n).map(|_| (b'a' + self.rng.below(26) as u8) as char).collect()
                }
                _ => self.rng.pick(STR_SAMPLES).to_string(),
            }
        } else {
            let n = self.rng.below(8) as usize;
            (0..n).map(|_| (b'a' + self.rng.below(26) as u8) as char).collect()
        }
    }
    fn lit(&mut self) -> u32 {
        // a quarter of the literals are values with a meaning in some number format (zeros, sign bits, infinities,
        // NaNs and subnormal edges of binary16 / binary32, all ones, powers of two)
        if self.rng.chance(1, 4) {
            *self.rng.pick(&[
                0u32, 1, 2, 0x7f, 0x80, 0xff, 0x100, 0x3ff, 0x400, 0x7bff, 0x7c00, 0x7c01, 0x7e00, 0x7fff, 0x8000, 0x8001, 0xfbff, 0xfc00, 0xffff, 0x1_0000, 0x3c00, 0x3f80_0000, 0x7f7f_ffff,
                0x7f80_0000, 0x7fc0_0000, 0x7fff_ffff, 0x8000_0000, 0x8000_0001, 0xff80_0000, 0xffff_ffff, 0x007f_ffff, 0x0080_0000,
            ])
        } else {
            self.rng.word()
        }
    }

    fn gen_variant(&mut self, k: KindId, ops: &mut Vec<MOp>) {
        let s = snap();
        match s.cat(k) {
            Cat::Id => {
                let id = self.some_id();
                ops.push(MOp::W(k, id));
            }
            Cat::LitInt | Cat::LitFloat | Cat::LitExtInst => {
                let w = self.lit();
                ops.push(MOp::W(k, w));
            }
            Cat::LitString => {
                let st = self.string();
                ops.push(MOp::S(st));
            }
            Cat::ValueEnum => {
                let e = &s.enums[&k];
                // a third of the picks come from the eight lowest numbers (the core, most widely used enumerants:
                // Shader / Kernel / Linkage, Import / Export, ...), so that a given well-known enumerant is common
                let w = if self.rng.chance(1, 3) { e.numbers[self.rng.usize_below(e.numbers.len().min(8))] } else { *self.rng.pick(&e.numbers) };
                ops.push(MOp::W(k, w));
                for p in s.params_of(k, w) {
                    self.gen_variant(p, ops);
                }
            }
            Cat::Mask => {
                let m = &s.masks[&k];
                let w = match self.rng.below(4) {
                    0 => 0,
                    1 => m.bits[self.rng.usize_below(m.bits.len())].0,
                    2 => m.all,
                    _ => self.rng.u32() & self.rng.u32() & m.all,
                };
                ops.push(MOp::W(k, w));
                for p in s.params_of(k, w) {
                    self.gen_variant(p, ops);
                }
            }
            _ => panic!("gen_variant: unexpected kind {}", s.kind_name(k)),
        }
    }

    fn gen_literal(&mut self, type_id: u32, ops: &mut Vec<MOp>) {
        let s = snap();
        match self.tctx.width_of(type_id) {
            Width::Two => {
                let v = if self.rng.chance(1, 4) {
                    *self.rng.pick(&[0u64, 1, 0x8000_0000, 0xffff_ffff, 0x1_0000_0000, 0x7ff0_0000_0000_0000, 0x7ff8_0000_0000_0000, 0x8000_0000_0000_0000, 0x7fff_ffff_ffff_ffff, 0xffff_ffff_ffff_ffff, 0x0010_0000_0000_0000, 0x3ff0_0000_0000_0000])
                } else {
                    ((self.rng.word() as u64) << 32) | self.rng.word() as u64
                };
                ops.push(MOp::L64(v));
            }
            // One, and (never chosen by the producer itself) Unsupported / Poisoned
            _ => {
                // half of the literals of a declared narrow type are special values OF THAT FORMAT
                let special: Option<&[u32]> = match self.tctx.types.get(&type_id) {
                    Some(crate::acceptor::Ty::Float(16)) => Some(&[0, 0x8000, 0x0001, 0x03ff, 0x0400, 0x3c00, 0x7bff, 0x7c00, 0xfc00, 0x7e00, 0x7c01, 0xffff, 0x8001]),
                    Some(crate::acceptor::Ty::Float(32)) => Some(&[0, 0x8000_0000, 1, 0x007f_ffff, 0x0080_0000, 0x3f80_0000, 0x7f7f_ffff, 0x7f80_0000, 0xff80_0000, 0x7fc0_0000, 0xffff_ffff]),
                    Some(crate::acceptor::Ty::Int(8)) => Some(&[0, 1, 0x7f, 0x80, 0xff, 0x100, 0xffff_ff80, 0xffff_ffff]),
                    Some(crate::acceptor::Ty::Int(16)) => Some(&[0, 1, 0x7fff, 0x8000, 0xffff, 0x1_0000, 0xffff_8000, 0xffff_ffff]),
                    Some(crate::acceptor::Ty::Int(32)) => Some(&[0, 1, 0x7fff_ffff, 0x8000_0000, 0xffff_ffff]),
                    _ => None,
                };
                let w = match special {
                    Some(v) if self.rng.chance(1, 2) => *self.rng.pick(v),
                    _ => self.lit(),
                };
                ops.push(MOp::W(s.k_lit32, w));
            }
        }
    }

    /// A result-type id for a context-dependent literal: a declared supported type or an undeclared id.
    fn literal_type(&mut self) -> u32 {
        if self.no_forward {
            // Builder driver: a declared one-word type or an id nothing ever defines
            return if !self.one_word_types.is_empty() && self.rng.chance(1, 2) {
                *self.rng.pick(&self.one_word_types)
            } else {
                *self.rng.pick(&self.untyped_pool)
            };
        }
        match self.rng.below(8) {
            0..=3 if !self.one_word_types.is_empty() => *self.rng.pick(&self.one_word_types),
            4..=6 if !self.two_word_types.is_empty() => *self.rng.pick(&self.two_word_types),
            _ => self.next_id + 100 + self.rng.below(50) as u32, // never declared
        }
    }

    fn gen_kind(&mut self, k: KindId, rtype: &mut Option<u32>, rid: &mut Option<u32>, ops: &mut Vec<MOp>, has_ctx: bool) {
        let s = snap();
        match s.cat(k) {
            Cat::IdResultType => {
                *rtype = Some(if has_ctx { self.literal_type() } else { self.some_id() });
            }
            Cat::IdResult => *rid = Some(self.fresh()),
            Cat::LitInt | Cat::LitFloat => {
                let w = self.lit();
                ops.push(MOp::W(s.k_lit32, w));
            }
            Cat::LitCtx => {
                let t = rtype.expect("result type precedes context-dependent literal");
                self.gen_literal(t, ops);
            }
            Cat::LitSpecOp => {
                // nested opcode restricted to ones whose operands are all single simple kinds
                let cands: Vec<u16> = if self.no_forward {
                    // the Builder's spec_constant_op takes the opcode only: nested opcodes without own operands
                    s.insts.iter().filter(|g| g.operands.iter().all(|(k, _)| matches!(s.cat(*k), Cat::IdResultType | Cat::IdResult))).map(|g| g.opcode).collect()
                } else {
                    s.insts.iter().filter(|g| spec_op_simple(g.opcode) && g.operands.len() >= 2).map(|g| g.opcode).collect()
                };
                let n = *self.rng.pick(&cands);
                ops.push(MOp::W(s.k_specop, n as u32));
                let g = s.inst(n).unwrap();
                for (nk, _) in &g.operands {
                    if matches!(s.cat(*nk), Cat::IdResultType | Cat::IdResult) {
                        continue;
                    }
                    let (mut a, mut b) = (None, None);
                    self.gen_kind(*nk, &mut a, &mut b, ops, false);
                }
            }
            Cat::PairLitId => {
                let sel = match ops.first() {
                    Some(MOp::W(_, v)) => *v,
                    _ => 0,
                };
                self.gen_literal(sel, ops);
                let id = self.some_id();
                ops.push(MOp::W(s.k_idref, id));
            }
            Cat::PairIdLit => {
                let id = self.some_id();
                ops.push(MOp::W(s.k_idref, id));
                let w = self.lit();
                ops.push(MOp::W(s.k_lit32, w));
            }
            Cat::PairIdId => {
                let a = self.some_id();
                ops.push(MOp::W(s.k_idref, a));
                let b = self.some_id();
                ops.push(MOp::W(s.k_idref, b));
            }
            _ => self.gen_variant(k, ops),
        }
    }

    /// A grammar-valid instruction of the given opcode; updates the generator's type context.
    pub fn inst(&mut self, opcode: u16) -> MInst {
        let s = snap();
        let g = s.inst(opcode).expect("opcode in snapshot");
        let has_ctx = g.operands.iter().any(|(k, _)| s.cat(*k) == Cat::LitCtx);
        let is_switch = g.operands.iter().any(|(k, _)| s.cat(*k) == Cat::PairLitId);
        let mut rtype = None;
        let mut rid = None;
        let mut ops = vec![];
        let mut absent = false;
        let mut groups: Vec<Group> = vec![];
        for (i, (k, q)) in g.operands.iter().enumerate() {
            let n = match q {
                Quant::One => 1,
                Quant::ZeroOrOne => {
                    if absent || self.rng.chance(1, 2) {
                        absent = true;
                        0
                    } else {
                        1
                    }
                }
                Quant::ZeroOrMore => {
                    if absent {
                        0
                    } else {
                        self.rng.range(0, self.cfg.max_variadic)
                    }
                }
            };
            let mut items: Vec<Vec<MOp>> = vec![];
            for _ in 0..n {
                let before = ops.len();
                if is_switch && i == 0 {
                    // selector: prefer an id whose type is known to the context
                    let typed: Vec<u32> = self.ids.iter().cloned().filter(|id| self.tctx.types.contains_key(id) && self.tctx.width_of(*id) != Width::Unsupported).collect();
                    let sel = if self.no_forward {
                        *self.rng.pick(&self.untyped_pool)
                    } else if !typed.is_empty() && self.rng.chance(3, 4) {
                        *self.rng.pick(&typed)
                    } else {
                        self.some_id()
                    };
                    ops.push(MOp::W(s.k_idref, sel));
                } else {
                    self.gen_kind(*k, &mut rtype, &mut rid, &mut ops, has_ctx);
                }
                items.push(ops[before..].to_vec());
            }
            if matches!(s.cat(*k), Cat::PairLitId | Cat::PairIdLit | Cat::PairIdId) && items.len() >= 2 && self.rng.chance(1, 3) {
                // a repeated table entry (same literal and target), or the same key with another target
                let n_items = items.len();
                let src = items[self.rng.usize_below(n_items - 1)].clone();
                let flat: usize = items.iter().map(|it| it.len()).sum();
                let start = ops.len() - flat;
                let last = n_items - 1;
                if self.rng.chance(2, 3) {
                    items[last] = src;
                } else {
                    items[last][0] = src[0].clone();
                }
                ops.truncate(start);
                for it in &items {
                    ops.extend(it.iter().cloned());
                }
            }
            if !matches!(s.cat(*k), Cat::IdResultType | Cat::IdResult) {
                groups.push(Group { kind: *k, quant: *q, items });
            }
        }
        if self.no_forward && (g.name == "TypeInt" || g.name == "TypeFloat") {
            // Builder driver: widths that matter for later literals
            let w = *self.rng.pick(&[8u32, 16, 32, 32, 64, 64, 7, 128]);
            ops[0] = MOp::W(s.k_lit32, w);
            groups[0].items[0][0] = MOp::W(s.k_lit32, w);
            if g.name == "TypeInt" && self.rng.chance(3, 4) {
                // signedness is 0 / 1 in practice
                let sg = self.rng.below(2) as u32;
                ops[1] = MOp::W(s.k_lit32, sg);
                groups[1].items[0][0] = MOp::W(s.k_lit32, sg);
            }
        }
        if g.name == "SourceExtension" && self.rng.chance(1, 2) {
            // source-language extension names as front ends write them
            let n = self.rng.pick(&["GL_GOOGLE_include_directive", "GL_GOOGLE_cpp_style_line_directive", "GL_ARB_separate_shader_objects", "GL_ARB_shading_language_420pack", "GL_EXT_nonuniform_qualifier", "GL_KHR_shader_subgroup_basic", "GL_EXT_scalar_block_layout", "GL_GOOGLE_"]).to_string();
            ops[0] = MOp::S(n.clone());
            groups[0].items[0][0] = MOp::S(n);
        }
        if g.name == "Extension" && self.rng.chance(1, 2) {
            // a registered extension name (code that special-cases particular extensions keys on these)
            let names = crate::snapshot::extension_names();
            let n = names[self.rng.usize_below(names.len())].clone();
            ops[0] = MOp::S(n.clone());
            groups[0].items[0][0] = MOp::S(n);
        }
        self.last_groups = groups;
        let inst = MInst { opcode, rtype, rid, ops };
        self.note(&inst);
        inst
    }

    /// record an instruction placed in the stream (type context in stream order)
    pub fn note(&mut self, inst: &MInst) {
        self.tctx.track(inst);
        if let Some(rid) = inst.rid {
            if inst.is("TypeInt") || inst.is("TypeFloat") {
                match self.tctx.width_of(rid) {
                    Width::One => self.one_word_types.push(rid),
                    Width::Two => self.two_word_types.push(rid),
                    _ => {}
                }
            }
        }
    }

    pub fn type_decl(&mut self, float: bool, width: u32) -> MInst {
        let s = snap();
        let rid = self.fresh();
        let inst = if float {
            let mut ops = vec![MOp::W(s.k_lit32, width)];
            if self.rng.chance(1, 3) {
                // the optional FP encoding operand (any declared enumerant)
                let k = s.kind("FPEncoding");
                let n = *self.rng.pick(&s.enums[&k].numbers);
                ops.push(MOp::W(k, n));
            }
            MInst {
                opcode: s.op("TypeFloat"),
                rtype: None,
                rid: Some(rid),
                ops,
            }
        } else {
            let sign = self.rng.below(2) as u32;
            MInst {
                opcode: s.op("TypeInt"),
                rtype: None,
                rid: Some(rid),
                ops: vec![MOp::W(s.k_lit32, width), MOp::W(s.k_lit32, sign)],
            }
        };
        self.note(&inst);
        inst
    }
}

pub fn version_word(major: u8, minor: u8) -> u32 {
    ((major as u32) << 16) | ((minor as u32) << 8)
}

/// A layout-ordered module.
pub fn gen_stream(rng: &mut Rng, cfg: ProdCfg) -> Stream {
    let s = snap();
    let max = cfg.max_insts;
    let max_funcs = cfg.max_funcs;
    let allow_other = cfg.allow_other;
    let ctx_dependent = cfg.ctx_dependent;
    let spec_ops = cfg.spec_ops;
    let major = *rng.pick(&[1u8, 1, 1, 0, 2, 255]);
    let minor = if rng.chance(1, 6) { *rng.pick(&[15u8, 16, 17, 31, 32, 99, 99, 128, 255]) } else { rng.below(7) as u8 };
    let version = version_word(major, minor);
    // generator word: registered tool ids (upper half 0..=45) with small tool versions, boundary words, or anything
    let generator = match rng.below(4) {
        0 => rng.word(),
        1 => *rng.pick(&[0u32, 0xFFFF_FFFF, 0x0006_000e, 0x000f_0000, 0x0008_000b, 0x0007_0000]),
        _ => ((rng.below(46) as u32) << 16) | if rng.chance(1, 2) { 0 } else { rng.below(64) as u32 },
    };
    let schema = if rng.chance(1, 8) { rng.word() } else { 0 };
    let mut g = Gen::new(rng, cfg);
    let mut insts: Vec<MInst> = vec![];
    // module-level sections in layout order
    let weights = [1u64, 1, 1, 1, 1, 1, 2, 2, 1, 3, 6];
    let total_w: u64 = weights.iter().sum();
    let module_budget = if max_funcs == 0 { max } else { max * 2 / 3 };
    let mut counts = [0usize; 11];
    for _ in 0..module_budget {
        let mut r = g.rng.below(total_w);
        for (i, w) in weights.iter().enumerate() {
            if r < *w {
                counts[i] += 1;
                break;
            }
            r -= w;
        }
    }
    counts[layout::SEC_MEMMODEL as usize] = counts[layout::SEC_MEMMODEL as usize].min(1);
    for sec in 0..=10u8 {
        let mut pool: Vec<u16> = layout::opcodes_of(|l| l == Lc::Section(sec));
        if sec == layout::SEC_TYPES {
            if !spec_ops {
                pool.retain(|o| *o != s.op("SpecConstantOp"));
            }
            if ctx_dependent {
                pool.push(s.op("Variable"));
                pool.push(s.op("Undef"));
                pool.push(s.op("Line"));
                pool.push(s.op("NoLine"));
            }
        }
        for n in 0..counts[sec as usize] {
            if sec == layout::SEC_TYPES && (n < 2 || g.rng.chance(1, 4)) {
                // int/float declarations first so that later literals have something to depend on
                let float = g.rng.chance(1, 3);
                let width = if g.rng.chance(1, 14) {
                    // a width the literal rule does not support (a later literal of it is an error the parser must report)
                    if g.rng.chance(1, 3) { near_miss_width(&mut g.rng) } else { *g.rng.pick(&[7u32, 24, 48, 128, 1, 0]) }
                } else if float {
                    *g.rng.pick(&[16u32, 32, 32, 64])
                } else {
                    *g.rng.pick(&[8u32, 16, 32, 32, 64, 64])
                };
                let i = g.type_decl(float, width);
                insts.push(i);
                continue;
            }
            let op = if sec == layout::SEC_TYPES && g.rng.chance(1, 3) {
                *g.rng.pick(&[s.op("Constant"), s.op("SpecConstant"), s.op("Constant")])
            } else {
                *g.rng.pick(&pool)
            };
            let i = g.inst(op);
            insts.push(i);
        }
    }
    // functions
    let body_pool: Vec<u16> = layout::opcodes_of(|l| l == Lc::Block || (allow_other && l == Lc::Other) || (ctx_dependent && matches!(l, Lc::Variable | Lc::Undef | Lc::Line)));
    let term_pool: Vec<u16> = layout::opcodes_of(|l| l == Lc::Terminator);
    let nfuncs = if max_funcs == 0 { 0 } else { g.rng.range(0, max_funcs as u64) as usize };
    for _ in 0..nfuncs {
        if insts.len() >= max.max(4) {
            break;
        }
        insts.push(g.inst(s.op("Function")));
        for _ in 0..g.rng.below(3) {
            insts.push(g.inst(s.op("FunctionParameter")));
        }
        for _ in 0..g.rng.range(1, 3) {
            insts.push(g.inst(s.op("Label")));
            for _ in 0..g.rng.below(5) {
                // opcode 0 (OpNop) is the lower boundary of the opcode space: common instead of 1-in-500
                let op = if g.rng.chance(1, 12) { s.op("Nop") } else { *g.rng.pick(&body_pool) };
                let i = g.inst(op);
                // an instruction without a result id now and then appears twice in a row (two stores, two lines, ...)
                let twice = i.rid.is_none() && g.rng.chance(1, 10);
                if twice {
                    insts.push(i.clone());
                }
                insts.push(i);
            }
            // structured control flow: a merge instruction right in front of the terminator
            if g.rng.chance(1, 5) {
                let mop = if g.rng.chance(2, 3) { s.op("SelectionMerge") } else { s.op("LoopMerge") };
                insts.push(g.inst(mop));
            }
            let t = if g.rng.chance(1, 4) { s.op("Switch") } else { *g.rng.pick(&term_pool) };
            insts.push(g.inst(t));
        }
        insts.push(g.inst(s.op("FunctionEnd")));
    }
    let mut bound = g.next_id + g.rng.below(3) as u32;
    let giant = g.cfg.giant;
    drop(g);
    let mut stream = Stream {
        header: MHeader {
            version,
            generator,
            bound,
            schema,
        },
        insts,
    };
    link_merges(rng, &mut stream);
    link_references(rng, &mut stream);
    if rng.chance(1, 10) {
        plant_linkage(rng, &mut stream);
    }
    // one result id (and every reference to it) moved to a boundary value: 0, 2^31, u32::MAX
    if rng.chance(1, 25) {
        let rids: Vec<u32> = stream.insts.iter().filter_map(|i| i.rid).collect();
        if !rids.is_empty() {
            let old = *rng.pick(&rids);
            let new = *rng.pick(&[0u32, 0, 0x8000_0000, 0xFFFF_FFFF, 0xFFFF_FFFE]);
            if !rids.contains(&new) {
                remap_id(&mut stream, old, new);
            }
        }
    }
    if giant && rng.chance(1, 400) {
        plant_dense_ids(rng, &mut stream);
    }
    if giant && rng.chance(1, 400) {
        plant_sparse_ids(rng, &mut stream);
        return stream;
    }
    if giant && rng.chance(1, 700) {
        plant_giant(rng, &mut stream);
        bound = stream.header.bound;
        let _ = bound;
    }
    stream
}

/// replace id `old` by `new` wherever it occurs as result type, result id or id operand
pub fn remap_id(stream: &mut Stream, old: u32, new: u32) {
    let s = snap();
    for i in stream.insts.iter_mut() {
        if i.rtype == Some(old) {
            i.rtype = Some(new);
        }
        if i.rid == Some(old) {
            i.rid = Some(new);
        }
        for o in i.ops.iter_mut() {
            if let MOp::W(k, v) = o {
                if *v == old && s.cat(*k) == Cat::Id {
                    *v = new;
                }
            }
        }
    }
}

/// Rare scale features: sizes at and beyond 16-bit boundaries.
pub fn plant_giant(rng: &mut Rng, stream: &mut Stream) {
    let s = snap();
    let base = stream.header.bound + 1;
    let at = stream.insts.iter().position(|i| i.is("Function")).unwrap_or(stream.insts.len());
    let kind = rng.below(6);
    match kind {
        0 => {
            // a string operand around / beyond 65535 bytes (and far beyond), partly multi-byte
            let n = *rng.pick(&[65_530usize, 65_531, 65_532, 65_535, 65_536, 65_537, 70_000, 131_072, 262_140, 262_150]);
            // (the longest string one instruction can hold is 4 * 65533 - 1 bytes)
            let n = n.min(4 * 65_533 - 1);
            let mut st = String::with_capacity(n + 4);
            let dense = rng.chance(1, 2);
            while st.len() + 2 <= n {
                if rng.chance(1, if dense { 3 } else { 50 }) {
                    st.push('é');
                } else {
                    st.push((b'a' + rng.below(26) as u8) as char);
                }
            }
            while st.len() < n {
                st.push('x');
            }
            let inst = if rng.chance(1, 2) {
                MInst { opcode: s.op("String"), rtype: None, rid: Some(base), ops: vec![MOp::S(st)] }
            } else {
                MInst { opcode: s.op("SourceExtension"), rtype: None, rid: None, ops: vec![MOp::S(st)] }
            };
            stream.insts.insert(at.min(stream.insts.len()), inst);
        }
        1 => {
            // an instruction of exactly 0xFFFF / 0xFFFE / 0xFFFD words
            let members = *rng.pick(&[65_533usize, 65_532, 65_531]);
            let ops: Vec<MOp> = (0..members).map(|k| MOp::W(s.k_idref, 1 + (k as u32 % 7))).collect();
            stream.insts.insert(at, MInst { opcode: s.op("TypeStruct"), rtype: None, rid: Some(base), ops });
        }
        2 => {
            // more than 256 distinct int/float types (363 exist for widths 8..=128), the 64-bit float last,
            // then a literal of it
            let mut k = 0u32;
            let mut seq = vec![];
            for w in 8..=128u32 {
                for sign in 0..2u32 {
                    seq.push(MInst { opcode: s.op("TypeInt"), rtype: None, rid: Some(base + k), ops: vec![MOp::W(s.k_lit32, w), MOp::W(s.k_lit32, sign)] });
                    k += 1;
                }
            }
            for w in (8..=128u32).filter(|w| *w != 64) {
                seq.push(MInst { opcode: s.op("TypeFloat"), rtype: None, rid: Some(base + k), ops: vec![MOp::W(s.k_lit32, w)] });
                k += 1;
            }
            seq.push(MInst { opcode: s.op("TypeFloat"), rtype: None, rid: Some(base + k), ops: vec![MOp::W(s.k_lit32, 64)] });
            let f64_id = base + k;
            k += 1;
            seq.push(MInst { opcode: s.op("Constant"), rtype: Some(f64_id), rid: Some(base + k), ops: vec![MOp::L64(0x1234_5678_9abc_def0)] });
            k += 1;
            for (j, i) in seq.into_iter().enumerate() {
                stream.insts.insert(at + j, i);
            }
            stream.header.bound += k + 2;
            return;
        }
        3 | 5 => {
            // tens of thousands of tracked ids, THEN a 64-bit type, a value of it and a literal of it
            let n = *rng.pick(&[65_533u32, 65_534, 65_535, 65_536, 65_540, 70_000]);
            let mut seq = vec![MInst { opcode: s.op("TypeInt"), rtype: None, rid: Some(base), ops: vec![MOp::W(s.k_lit32, 32), MOp::W(s.k_lit32, 0)] }];
            for k in 0..n {
                seq.push(MInst { opcode: s.op("Undef"), rtype: Some(base), rid: Some(base + 1 + k), ops: vec![] });
            }
            let t64 = base + n + 1;
            seq.push(MInst { opcode: s.op("TypeInt"), rtype: None, rid: Some(t64), ops: vec![MOp::W(s.k_lit32, 64), MOp::W(s.k_lit32, 1)] });
            let bystander_function = |seq: &mut Vec<MInst>, id0: u32| {
                // a complete (empty) function: structural boundaries between the declarations and their consumers
                seq.push(MInst { opcode: s.op("Function"), rtype: Some(base), rid: Some(id0), ops: vec![MOp::W(s.kind("FunctionControl"), 0), MOp::W(s.k_idref, base)] });
                seq.push(MInst { opcode: s.op("Label"), rtype: None, rid: Some(id0 + 1), ops: vec![] });
                seq.push(MInst { opcode: s.op("Return"), rtype: None, rid: None, ops: vec![] });
                seq.push(MInst { opcode: s.op("FunctionEnd"), rtype: None, rid: None, ops: vec![] });
            };
            let by = rng.below(3);
            if by == 1 {
                bystander_function(&mut seq, t64 + 4);
            }
            seq.push(MInst { opcode: s.op("Undef"), rtype: Some(t64), rid: Some(t64 + 1), ops: vec![] });
            seq.push(MInst { opcode: s.op("Constant"), rtype: Some(t64), rid: Some(t64 + 2), ops: vec![MOp::L64(7)] });
            seq.push(MInst { opcode: s.op("SpecConstant"), rtype: Some(t64), rid: Some(t64 + 3), ops: vec![MOp::L64(u64::MAX)] });
            if by == 2 {
                bystander_function(&mut seq, t64 + 4);
                seq.push(MInst { opcode: s.op("Constant"), rtype: Some(t64), rid: Some(t64 + 6), ops: vec![MOp::L64(11)] });
            }
            if kind == 5 {
                // a switch on the late 64-bit value (parser-level only: a terminator outside a block is the loader's business)
                seq.push(MInst { opcode: s.op("Switch"), rtype: None, rid: None, ops: vec![MOp::W(s.k_idref, t64 + 1), MOp::W(s.k_idref, 1), MOp::L64(0xAAAA_BBBB_CCCC_DDDD), MOp::W(s.k_idref, 2)] });
            }
            for (j, i) in seq.into_iter().enumerate() {
                stream.insts.insert(at + j, i);
            }
            stream.header.bound += n + 10;
            return;
        }
        _ => {
            // a long single line: hundreds of id operands
            let n = rng.range(170, 400) as usize;
            let ops: Vec<MOp> = (0..n).map(|k| MOp::W(s.k_idref, 1000 + k as u32)).collect();
            stream.insts.insert(at, MInst { opcode: s.op("TypeStruct"), rtype: None, rid: Some(base), ops });
        }
    }
    stream.header.bound += 2;
}

/// Dense ids across power-of-two boundaries: every id in [bound+1, top] carries a 64-bit numeric type (by
/// declaration or by propagation from an OpUndef), and every id of the form 2^k-1, 2^k, 2^k+1 in that range is
/// consumed (OpConstant of the declared ones, an OpSwitch in its own block for the propagated ones).  Any table
/// split, cache size or index width that changes behaviour at such an id shows as a wrong literal width.
pub fn plant_dense_ids(rng: &mut Rng, stream: &mut Stream) {
    let s = snap();
    let base = stream.header.bound + 1;
    let top: u32 = if rng.chance(1, 12) { 66_000 } else { *rng.pick(&[300u32, 1_100, 2_100, 4_200]) };
    if base + 8 >= top {
        return;
    }
    let at = stream.insts.iter().position(|i| i.is("Function")).unwrap_or(stream.insts.len());
    let mut boundary = std::collections::BTreeSet::new();
    for k in 4..=16u32 {
        for d in [-1i64, 0, 1] {
            let b = (1i64 << k) + d;
            if b > base as i64 + 1 && b <= top as i64 {
                boundary.insert(b as u32);
            }
        }
    }
    let float = rng.chance(1, 3);
    let decl = |id: u32| {
        if float {
            MInst { opcode: s.op("TypeFloat"), rtype: None, rid: Some(id), ops: vec![MOp::W(s.k_lit32, 64)] }
        } else {
            MInst { opcode: s.op("TypeInt"), rtype: None, rid: Some(id), ops: vec![MOp::W(s.k_lit32, 64), MOp::W(s.k_lit32, 0)] }
        }
    };
    let mut seq = vec![decl(base)];
    let mut declared = vec![];
    let mut propagated = vec![];
    for id in base + 1..=top {
        if boundary.contains(&id) && rng.chance(1, 3) {
            seq.push(decl(id));
            declared.push(id);
        } else {
            seq.push(MInst { opcode: s.op("Undef"), rtype: Some(base), rid: Some(id), ops: vec![] });
            if boundary.contains(&id) {
                propagated.push(id);
            }
        }
    }
    let mut next = top + 1;
    for b in &declared {
        seq.push(MInst { opcode: s.op("Constant"), rtype: Some(*b), rid: Some(next), ops: vec![MOp::L64(0x0123_4567_89ab_cdef ^ *b as u64)] });
        next += 1;
    }
    for (j, i) in seq.into_iter().enumerate() {
        stream.insts.insert(at + j, i);
    }
    if !propagated.is_empty() {
        stream.insts.push(MInst { opcode: s.op("Function"), rtype: Some(base), rid: Some(next), ops: vec![MOp::W(s.kind("FunctionControl"), 0), MOp::W(s.k_idref, base)] });
        next += 1;
        for b in &propagated {
            stream.insts.push(MInst { opcode: s.op("Label"), rtype: None, rid: Some(next), ops: vec![] });
            stream.insts.push(MInst {
                opcode: s.op("Switch"),
                rtype: None,
                rid: None,
                ops: vec![MOp::W(s.k_idref, *b), MOp::W(s.k_idref, next), MOp::L64(0xfeed_0000_0000_0000 | *b as u64), MOp::W(s.k_idref, next)],
            });
            next += 1;
        }
        stream.insts.push(MInst { opcode: s.op("FunctionEnd"), rtype: None, rid: None, ops: vec![] });
    }
    stream.header.bound = next + 1;
}

/// Thousands of ids scattered over the whole 32-bit space, each an int / float type of one or two words, each consumed
/// by a constant right after all declarations: any lossy cache, truncated key or hash shortcut in the id -> type map
/// makes two of them collide with a good chance (birthday effect), and the literal width of one goes wrong.
pub fn plant_sparse_ids(rng: &mut Rng, stream: &mut Stream) {
    let s = snap();
    let n = *rng.pick(&[600usize, 3_000, 3_000, 8_000]);
    let at = stream.insts.iter().position(|i| i.is("Function")).unwrap_or(stream.insts.len());
    let used: std::collections::BTreeSet<u32> = stream.insts.iter().filter_map(|i| i.rid).collect();
    let mut ids = std::collections::BTreeSet::new();
    while ids.len() < n {
        let id = rng.word() | 0x0001_0000; // well away from the small ids of the rest of the module
        if !used.contains(&id) && id < 0x7FFF_0000 {
            ids.insert(id);
        }
    }
    let ids: Vec<u32> = ids.into_iter().collect();
    let mut decls = vec![];
    let mut consts = vec![];
    let mut next = 0x7FFF_0000u32;
    let mut order: Vec<usize> = (0..ids.len()).collect();
    rng.shuffle(&mut order);
    for k in order {
        let id = ids[k];
        let two = rng.chance(1, 2);
        let float = rng.chance(1, 3);
        let w = if two { 64 } else if float { 32 } else { *rng.pick(&[8u32, 16, 32]) };
        let mut ops = vec![MOp::W(s.k_lit32, w)];
        if !float {
            ops.push(MOp::W(s.k_lit32, 0));
        }
        decls.push(MInst { opcode: if float { s.op("TypeFloat") } else { s.op("TypeInt") }, rtype: None, rid: Some(id), ops });
        let lit = if two { MOp::L64(0x1111_2222_3333_4444 ^ id as u64) } else { MOp::W(s.k_lit32, id ^ 0x5a5a) };
        consts.push(MInst { opcode: s.op("Constant"), rtype: Some(id), rid: Some(next), ops: vec![lit] });
        next = next.wrapping_add(1);
    }
    let mut j = 0;
    for i in decls.into_iter().chain(consts) {
        stream.insts.insert(at + j, i);
        j += 1;
    }
    // (later hot spots take their ids from the bound upwards)
    stream.header.bound = 0x7FFF_8000;
}

/// Structured control flow as real modules have it: half of the merge instructions name the label that follows
/// them in the stream (their merge block) and branch terminators name labels of the same function.
pub fn link_merges(rng: &mut Rng, stream: &mut Stream) {
    let s = snap();
    let n = stream.insts.len();
    for k in 0..n {
        let is_merge = stream.insts[k].is("SelectionMerge") || stream.insts[k].is("LoopMerge");
        let is_branch = stream.insts[k].is("Branch") || stream.insts[k].is("BranchConditional");
        if !(is_merge || is_branch) || !rng.chance(1, 2) {
            continue;
        }
        let next_label = stream.insts[k + 1..].iter().take_while(|i| !i.is("FunctionEnd")).find(|i| i.is("Label")).and_then(|i| i.rid);
        if let Some(l) = next_label {
            let slot = if is_branch && stream.insts[k].is("BranchConditional") { 1 } else { 0 };
            if let Some(MOp::W(kk, v)) = stream.insts[k].ops.get_mut(slot) {
                if *kk == s.k_idref {
                    *v = l;
                }
            }
        }
    }
}

/// References as real modules have them: an entry point names a function of the module and lists variables of the
/// module (global or function-local) in its interface; execution modes name an entry point's function.
pub fn link_references(rng: &mut Rng, stream: &mut Stream) {
    let s = snap();
    let funcs: Vec<u32> = stream.insts.iter().filter(|i| i.is("Function")).filter_map(|i| i.rid).collect();
    let vars: Vec<u32> = stream.insts.iter().filter(|i| i.is("Variable")).filter_map(|i| i.rid).collect();
    let ptrs: Vec<(u32, u32)> = stream
        .insts
        .iter()
        .filter(|i| i.is("TypePointer"))
        .filter_map(|i| match (i.rid, i.ops.first()) {
            (Some(r), Some(MOp::W(_, sc))) => Some((r, *sc)),
            _ => None,
        })
        .collect();
    let fn_types: Vec<u32> = stream.insts.iter().filter(|i| i.is("TypeFunction")).filter_map(|i| i.rid).collect();
    let voids: Vec<u32> = stream.insts.iter().filter(|i| i.is("TypeVoid")).filter_map(|i| i.rid).collect();
    let all_types: Vec<u32> = stream.insts.iter().filter(|i| i.name().starts_with("Type")).filter_map(|i| i.rid).collect();
    // labels of each function (by position of its OpFunction)
    let mut labels_of: Vec<(usize, Vec<u32>)> = vec![];
    for (k, i) in stream.insts.iter().enumerate() {
        if i.is("Function") {
            labels_of.push((k, vec![]));
        } else if i.is("Label") {
            if let (Some(l), Some(r)) = (labels_of.last_mut(), i.rid) {
                l.1.push(r);
            }
        }
    }
    let all_rids: Vec<u32> = stream.insts.iter().filter_map(|i| i.rid).collect();
    for (pos, i) in stream.insts.iter_mut().enumerate() {
        if !all_rids.is_empty() && matches!(i.name().as_str(), "Decorate" | "DecorateId" | "DecorateString" | "MemberDecorate" | "MemberDecorateString" | "Name" | "MemberName") && rng.chance(1, 2) {
            // annotations and names precede what they annotate: the target is an id defined anywhere in the module
            if let Some(MOp::W(k, v)) = i.ops.get_mut(0) {
                if *k == s.k_idref {
                    *v = *rng.pick(&all_rids);
                }
            }
            continue;
        }
        if i.is("Function") {
            // result type: a declared type (void among them); function type: a declared OpTypeFunction
            if rng.chance(1, 2) {
                let pool = if !voids.is_empty() && rng.chance(1, 2) { &voids } else { &all_types };
                if !pool.is_empty() {
                    i.rtype = Some(*rng.pick(pool));
                }
            }
            if !fn_types.is_empty() && rng.chance(1, 2) {
                if let Some(MOp::W(k, v)) = i.ops.get_mut(1) {
                    if *k == s.k_idref {
                        *v = *rng.pick(&fn_types);
                    }
                }
            }
            continue;
        }
        if (i.is("Branch") || i.is("BranchConditional") || i.is("LoopMerge") || i.is("SelectionMerge")) && rng.chance(1, 3) {
            // a label of the same function: the entry block, the block itself, any other
            if let Some((_, labels)) = labels_of.iter().rev().find(|(k, _)| *k < pos) {
                if !labels.is_empty() {
                    let target = if rng.chance(1, 2) { labels[0] } else { *rng.pick(labels) };
                    let slot = if i.is("BranchConditional") { 1 + rng.below(2) as usize } else { 0 };
                    if let Some(MOp::W(k, v)) = i.ops.get_mut(slot) {
                        if *k == s.k_idref {
                            *v = target;
                        }
                    }
                }
            }
            continue;
        }
        if i.is("EntryPoint") {
            if !funcs.is_empty() && rng.chance(1, 2) {
                if let Some(MOp::W(k, v)) = i.ops.get_mut(1) {
                    if *k == s.k_idref {
                        *v = *rng.pick(&funcs);
                    }
                }
            }
            if !vars.is_empty() {
                // interface ids come behind the name string
                let first_iface = i.ops.iter().position(|o| matches!(o, MOp::S(_))).map(|p| p + 1).unwrap_or(i.ops.len());
                for o in i.ops[first_iface..].iter_mut() {
                    if let MOp::W(k, v) = o {
                        if *k == s.k_idref && rng.chance(1, 2) {
                            *v = *rng.pick(&vars);
                        }
                    }
                }
            }
        } else if i.is("TypeForwardPointer") && !ptrs.is_empty() && rng.chance(2, 3) {
            // a forward declaration of a pointer type the module really declares (same id, same storage class)
            let (pid, sc) = *rng.pick(&ptrs);
            if i.ops.len() >= 2 {
                if let MOp::W(_, v) = &mut i.ops[0] {
                    *v = pid;
                }
                if let MOp::W(_, v) = &mut i.ops[1] {
                    *v = sc;
                }
            }
        } else if (i.is("ExecutionMode") || i.is("ExecutionModeId")) && !funcs.is_empty() && rng.chance(1, 2) {
            if let Some(MOp::W(k, v)) = i.ops.get_mut(0) {
                if *k == s.k_idref {
                    *v = *rng.pick(&funcs);
                }
            }
        }
    }
}

/// Hot spot where SPIR-V semantics tie annotations to structure: the Linkage capability and a
/// LinkageAttributes decoration (Import: "a declaration without a body") on a function id.
pub fn plant_linkage(rng: &mut Rng, stream: &mut Stream) {
    let s = snap();
    let funcs: Vec<u32> = stream.insts.iter().filter(|i| i.is("Function")).filter_map(|i| i.rid).collect();
    let rids: Vec<u32> = stream.insts.iter().filter_map(|i| i.rid).collect();
    let target = if !funcs.is_empty() && rng.chance(7, 8) {
        *rng.pick(&funcs)
    } else if !rids.is_empty() {
        *rng.pick(&rids)
    } else {
        stream.header.bound.wrapping_add(1)
    };
    let k_dec = s.kind("Decoration");
    let k_lt = s.kind("LinkageType");
    let k_cap = s.kind("Capability");
    let number = |k: KindId, name: &str| s.enums[&k].values.iter().find(|(_, n)| n.as_str() == name).map(|(v, _)| *v);
    let (Some(la), Some(linkage)) = (number(k_dec, "LinkageAttributes"), number(k_cap, "Linkage")) else { return };
    let lt = *rng.pick(&s.enums[&k_lt].numbers);
    let name = *rng.pick(&["f", "main", "ext_fn", "", "é"]);
    let dec = MInst {
        opcode: s.op("Decorate"),
        rtype: None,
        rid: None,
        ops: vec![MOp::W(s.k_idref, target), MOp::W(k_dec, la), MOp::S(name.to_string()), MOp::W(k_lt, lt)],
    };
    // in layout order: behind the last instruction of the sections up to the annotations
    let at = stream
        .insts
        .iter()
        .position(|i| !matches!(crate::layout::class_of(i.opcode), Lc::Section(sec) if sec <= layout::SEC_ANNOT))
        .unwrap_or(stream.insts.len());
    stream.insts.insert(at, dec);
    if rng.chance(3, 4) {
        let cap = if rng.chance(3, 4) { linkage } else { number(k_cap, "Kernel").unwrap_or(linkage) };
        stream.insts.insert(0, MInst { opcode: s.op("Capability"), rtype: None, rid: None, ops: vec![MOp::W(k_cap, cap)] });
    }
}

/// Hot spot for the disassembler's extended-instruction naming: an import of a known set and an
/// OpExtInst inside a block that names it with a boundary instruction number.
pub fn plant_ext_inst(rng: &mut Rng, stream: &mut Stream) {
    let s = snap();
    let set_id = stream.header.bound + 1;
    let base = *rng.pick(&["GLSL.std.450", "GLSL.std.450", "OpenCL.std", "OpenCL.std", "NonSemantic.DebugPrintf", "NonSemantic.Shader.DebugInfo.100", "GLSL.std.451"]);
    // exact name, or a near miss: a prefix of it, optionally continued with multi-byte / other characters
    let name: String = if rng.chance(2, 3) {
        base.to_string()
    } else {
        // a third of the near misses keep the whole name and append one or two short pieces (a version suffix, a
        // multi-byte character); the others cut it somewhere first
        let k = if rng.chance(1, 3) { base.len() } else { rng.usize_below(base.len() + 1) };
        let mut n = base[..k].to_string();
        let pieces = if k == base.len() { rng.range(1, 2) } else { rng.below(4) };
        for _ in 0..pieces {
            n.push_str(*rng.pick(&["é", "€", "😀", "😀", ".", "x", "std", "1", ".100", "日本"]));
        }
        if k < base.len() && rng.chance(1, 3) {
            n.push_str(&base[k..]);
        }
        n
    };
    // boundaries of the two known tables (GLSL.std.450: 1..=81, OpenCL.std: 0..=204) and of the number space
    let number = match rng.below(12) {
        0 => 0,
        1 => 1,
        2 => 81,
        3 => 82,
        4 => u32::MAX,
        5 => rng.below(210) as u32,
        6 => 0x8000_0000,
        7 => 204,
        8 => 205,
        9 => 206,
        _ => rng.below(100) as u32,
    };
    let import = MInst {
        opcode: s.op("ExtInstImport"),
        rtype: None,
        rid: Some(set_id),
        ops: vec![MOp::S(name)],
    };
    // optionally a second recognised import a few ids further on; the instruction names either of them, an id between
    // them (no import at all) or one beyond
    let second = rng.chance(1, 3);
    let named_set = match rng.below(8) {
        0 => set_id + 7,
        1 | 2 if second => set_id + 6,
        3 if second => set_id + 3,
        _ => set_id,
    };
    let mut ops = vec![MOp::W(s.k_idref, named_set), MOp::W(s.k_extinst, number)];
    for _ in 0..rng.below(4) {
        ops.push(MOp::W(s.k_idref, rng.below(20) as u32));
    }
    let ext = MInst {
        opcode: s.op("ExtInst"),
        rtype: Some(rng.range(1, 20) as u32),
        rid: Some(set_id + 2),
        ops,
    };
    // import goes to the front (module level); the ext inst right after the first label, or into a new function
    if rng.chance(1, 6) {
        // the same id imported twice, possibly as two different known sets (ids are not validated)
        let other = *rng.pick(&["GLSL.std.450", "OpenCL.std", "NonSemantic.DebugPrintf"]);
        stream.insts.insert(0, MInst { opcode: s.op("ExtInstImport"), rtype: None, rid: Some(set_id), ops: vec![MOp::S(other.to_string())] });
    }
    stream.insts.insert(0, import);
    if second {
        let other = *rng.pick(&["GLSL.std.450", "OpenCL.std", "OpenCL.std"]);
        stream.insts.insert(1, MInst { opcode: s.op("ExtInstImport"), rtype: None, rid: Some(set_id + 6), ops: vec![MOp::S(other.to_string())] });
    }
    match stream.insts.iter().position(|i| i.is("Label")) {
        Some(k) => stream.insts.insert(k + 1, ext),
        None => {
            stream.insts.push(MInst { opcode: s.op("Function"), rtype: Some(1), rid: Some(set_id + 3), ops: vec![MOp::W(s.kind("FunctionControl"), 0), MOp::W(s.k_idref, 2)] });
            stream.insts.push(MInst { opcode: s.op("Label"), rtype: None, rid: Some(set_id + 4), ops: vec![] });
            stream.insts.push(ext);
            stream.insts.push(MInst { opcode: s.op("Return"), rtype: None, rid: None, ops: vec![] });
            stream.insts.push(MInst { opcode: s.op("FunctionEnd"), rtype: None, rid: None, ops: vec![] });
        }
    }
    stream.header.bound += 10;
}

/// Hot spot the no-panic property names: an OpSpecConstantOp whose nested opcode is ANY number.  A third of the picks
/// come from the opcodes whose operand kinds are special (context-dependent literals, literal/id pairs, the spec-op
/// number itself, extended instructions) and from the edges of the opcode space.
pub fn plant_spec_constant_op(rng: &mut Rng, stream: &mut Stream) {
    let s = snap();
    let special: Vec<u32> = s
        .insts
        .iter()
        .filter(|g| g.operands.iter().any(|(k, _)| matches!(s.cat(*k), Cat::LitCtx | Cat::PairLitId | Cat::PairIdLit | Cat::PairIdId | Cat::LitSpecOp | Cat::LitExtInst | Cat::LitString)))
        .map(|g| g.opcode as u32)
        .collect();
    let max_opcode = s.insts.iter().map(|g| g.opcode as u32).max().unwrap_or(0);
    let any = match rng.below(6) {
        0 | 1 => *rng.pick(&special),
        2 => *rng.pick(&[0u32, max_opcode, max_opcode + 1, 0xFFFF, 0x1_0000, 0x1_0000 + 15, u32::MAX]),
        _ => s.insts[rng.usize_below(s.insts.len())].opcode as u32,
    };
    let mut ops = vec![MOp::W(s.k_specop, any)];
    for _ in 0..rng.below(5) {
        ops.push(MOp::W(s.k_idref, rng.below(20) as u32));
    }
    let at = rng.usize_below(stream.insts.len() + 1);
    stream.insts.insert(
        at,
        MInst {
            opcode: s.op("SpecConstantOp"),
            rtype: Some(rng.range(1, 20) as u32),
            rid: Some(stream.header.bound.wrapping_add(rng.range(100, 200) as u32)),
            ops,
        },
    );
}

/// A width no literal rule supports that aliases a supported one when the stored width is truncated, masked or
/// byte-shifted: 8 / 16 / 32 / 64 with one of the bits 7, 8, 15, 16, 24, 30, 31 set, or shifted left by 8 / 16 / 24.
pub fn near_miss_width(rng: &mut Rng) -> u32 {
    let base = *rng.pick(&[8u32, 16, 32, 64]);
    if rng.chance(1, 4) {
        base << *rng.pick(&[8u32, 16, 24])
    } else {
        base | (1u32 << *rng.pick(&[7u32, 8, 15, 16, 24, 30, 31]))
    }
}

/// Hot spot for code that re-derives literal widths AFTER parsing (the module disassembler tracks all
/// global types first): an OpConstant whose type id is declared only later, or re-declared later with
/// another width / kind.
pub fn plant_late_type(rng: &mut Rng, stream: &mut Stream) {
    let s = snap();
    if rng.chance(1, 3) {
        // a constant whose result type is the id of a VALUE (a function, a parameter, a value defined in a block) that
        // the parser's tracker has typed 64-bit by propagation; a second pass over the global section alone cannot
        // know that type.  Well-bracketed: a complete function, the constants behind it.
        let b = stream.header.bound + 1;
        let float = rng.chance(1, 3);
        let w = *rng.pick(&[64u32, 64, 64, 32, 16, 7]);
        let mut tops = vec![MOp::W(s.k_lit32, w)];
        if !float {
            tops.push(MOp::W(s.k_lit32, rng.below(2) as u32));
        }
        let at = stream.insts.iter().position(|i| i.is("Function")).unwrap_or(stream.insts.len());
        stream.insts.insert(at, MInst { opcode: if float { s.op("TypeFloat") } else { s.op("TypeInt") }, rtype: None, rid: Some(b), ops: tops });
        let f = b + 1;
        stream.insts.push(MInst { opcode: s.op("Function"), rtype: Some(b), rid: Some(f), ops: vec![MOp::W(s.kind("FunctionControl"), 0), MOp::W(s.k_idref, b)] });
        stream.insts.push(MInst { opcode: s.op("FunctionParameter"), rtype: Some(b), rid: Some(f + 1), ops: vec![] });
        stream.insts.push(MInst { opcode: s.op("Label"), rtype: None, rid: Some(f + 2), ops: vec![] });
        stream.insts.push(MInst { opcode: s.op("Undef"), rtype: Some(b), rid: Some(f + 3), ops: vec![] });
        stream.insts.push(MInst { opcode: s.op("CopyObject"), rtype: Some(f + 3), rid: Some(f + 4), ops: vec![MOp::W(s.k_idref, f + 3)] });
        stream.insts.push(MInst { opcode: s.op("Return"), rtype: None, rid: None, ops: vec![] });
        stream.insts.push(MInst { opcode: s.op("FunctionEnd"), rtype: None, rid: None, ops: vec![] });
        let mut next = f + 5;
        for _ in 0..rng.range(1, 3) {
            let via = f + rng.below(5) as u32;
            // (f + 2 is the label: not typed -> one word)
            let two = w == 64 && via != f + 2;
            let lit = if two { MOp::L64(((rng.word() as u64) << 32) | rng.word() as u64) } else { MOp::W(s.k_lit32, rng.word()) };
            stream.insts.push(MInst { opcode: if rng.chance(3, 4) { s.op("Constant") } else { s.op("SpecConstant") }, rtype: Some(via), rid: Some(next), ops: vec![lit] });
            next += 1;
        }
        stream.header.bound = next + 1;
        return;
    }
    if rng.chance(1, 5) {
        // an id defined twice: a type id re-defined as a value typed by itself, or two values typed by each other, and a
        // literal consumer of it (widths are unconstrained for such ids; parsing must still terminate without panic)
        let b = stream.header.bound + 1;
        let at = stream.insts.iter().position(|i| i.is("Function")).unwrap_or(stream.insts.len());
        let w = *rng.pick(&[32u32, 32, 64, 16]);
        let mut seq = vec![MInst { opcode: s.op("TypeInt"), rtype: None, rid: Some(b), ops: vec![MOp::W(s.k_lit32, w), MOp::W(s.k_lit32, 0)] }];
        if rng.chance(1, 2) {
            seq.push(MInst { opcode: s.op("Undef"), rtype: Some(b), rid: Some(b), ops: vec![] });
        } else {
            seq.push(MInst { opcode: s.op("Undef"), rtype: Some(b + 1), rid: Some(b), ops: vec![] });
            seq.push(MInst { opcode: s.op("Undef"), rtype: Some(b), rid: Some(b + 1), ops: vec![] });
        }
        let lit = if w == 64 { MOp::L64(7) } else { MOp::W(s.k_lit32, 7) };
        seq.push(MInst { opcode: s.op("Constant"), rtype: Some(b), rid: Some(b + 2), ops: vec![lit] });
        for (k, i) in seq.into_iter().enumerate() {
            stream.insts.insert(at + k, i);
        }
        stream.header.bound = b + 4;
        return;
    }
    let ty = stream.header.bound + 1;
    let decl = |rng: &mut Rng| -> MInst {
        let float = rng.chance(1, 3);
        let w = *rng.pick(&[8u32, 16, 32, 32, 64, 64, 7, 128]);
        let mut ops = vec![MOp::W(s.k_lit32, w)];
        if !float {
            ops.push(MOp::W(s.k_lit32, rng.below(2) as u32));
        }
        MInst { opcode: if float { s.op("TypeFloat") } else { s.op("TypeInt") }, rtype: None, rid: Some(ty), ops }
    };
    let mut seq: Vec<MInst> = vec![];
    let first = if rng.chance(1, 2) { Some(decl(rng)) } else { None };
    // the literal is encoded for what the PARSER will know at that point
    let two_words = match &first {
        Some(d) => matches!(d.ops.first(), Some(MOp::W(_, 64))),
        None => false,
    };
    if let Some(d) = first {
        seq.push(d);
    }
    let lit = if two_words { MOp::L64(((rng.word() as u64) << 32) | rng.word() as u64) } else { MOp::W(s.k_lit32, rng.word()) };
    seq.push(MInst { opcode: if rng.chance(3, 4) { s.op("Constant") } else { s.op("SpecConstant") }, rtype: Some(ty), rid: Some(ty + 1), ops: vec![lit] });
    seq.push(decl(rng)); // declared (again) AFTER the constant
    // module level: in front of the first function
    let at = stream.insts.iter().position(|i| i.is("Function")).unwrap_or(stream.insts.len());
    for (k, i) in seq.into_iter().enumerate() {
        stream.insts.insert(at + k, i);
    }
    stream.header.bound += 4;
}
