//! Input buffers placed flush against PROT_NONE guard pages, so that a read one
//! byte outside "the given buffer" is a deterministic SIGSEGV in the worker
//! process (decides the "reads outside the buffer" clause of C04/C11 natively).
//! Under Miri (no mmap) a plain Vec is used; Miri itself detects the overread.

pub struct GuardedBuf {
    #[cfg(not(miri))]
    map: *mut u8,
    #[cfg(not(miri))]
    map_len: usize,
    #[cfg(not(miri))]
    data: *const u8,
    #[cfg(miri)]
    v: Vec<u32>,
    len: usize,
}

#[cfg(not(miri))]
const PAGE: usize = 4096;

impl GuardedBuf {
    /// `flush_end`: data ends exactly at the trailing guard page (overread traps);
    /// otherwise data starts exactly after the leading guard page (underread traps).
    /// The data pointer is 4-byte aligned whenever `flush_end` is false or `bytes.len() % 4 == 0`.
    #[cfg(not(miri))]
    pub fn new(bytes: &[u8], flush_end: bool) -> GuardedBuf {
        let data_pages = bytes.len().div_ceil(PAGE).max(1);
        let map_len = (data_pages + 2) * PAGE;
        unsafe {
            let map = libc::mmap(
                std::ptr::null_mut(),
                map_len,
                libc::PROT_READ | libc::PROT_WRITE,
                libc::MAP_PRIVATE | libc::MAP_ANONYMOUS,
                -1,
                0,
            );
            assert!(map != libc::MAP_FAILED, "mmap failed");
            let map = map as *mut u8;
            let region = map.add(PAGE);
            let region_len = data_pages * PAGE;
            let data = if flush_end {
                region.add(region_len - bytes.len())
            } else {
                region
            };
            std::ptr::copy_nonoverlapping(bytes.as_ptr(), data, bytes.len());
            assert_eq!(libc::mprotect(map as *mut libc::c_void, PAGE, libc::PROT_NONE), 0);
            assert_eq!(
                libc::mprotect(region.add(region_len) as *mut libc::c_void, PAGE, libc::PROT_NONE),
                0
            );
            // the data itself becomes read-only: a write through the shared slice would trap too
            assert_eq!(libc::mprotect(region as *mut libc::c_void, region_len, libc::PROT_READ), 0);
            GuardedBuf {
                map,
                map_len,
                data,
                len: bytes.len(),
            }
        }
    }

    #[cfg(miri)]
    pub fn new(bytes: &[u8], _flush_end: bool) -> GuardedBuf {
        let mut v = vec![0u32; bytes.len().div_ceil(4)];
        unsafe {
            std::ptr::copy_nonoverlapping(bytes.as_ptr(), v.as_mut_ptr() as *mut u8, bytes.len());
        }
        GuardedBuf { v, len: bytes.len() }
    }

    pub fn bytes(&self) -> &[u8] {
        #[cfg(not(miri))]
        unsafe {
            std::slice::from_raw_parts(self.data, self.len)
        }
        #[cfg(miri)]
        unsafe {
            std::slice::from_raw_parts(self.v.as_ptr() as *const u8, self.len)
        }
    }

    /// The buffer as words, if length and alignment allow.
    pub fn words(&self) -> Option<&[u32]> {
        if self.len % 4 != 0 {
            return None;
        }
        let p = self.bytes().as_ptr();
        if (p as usize) % 4 != 0 {
            return None;
        }
        Some(unsafe { std::slice::from_raw_parts(p as *const u32, self.len / 4) })
    }
}

#[cfg(not(miri))]
impl Drop for GuardedBuf {
    fn drop(&mut self) {
        unsafe {
            libc::munmap(self.map as *mut libc::c_void, self.map_len);
        }
    }
}

/// serde helper: Vec<u8> <-> lowercase hex string
pub mod hexbytes {
    use serde::{Deserialize, Deserializer, Serializer};
    pub fn serialize<S: Serializer>(v: &Vec<u8>, s: S) -> Result<S::Ok, S::Error> {
        let mut out = String::with_capacity(v.len() * 2);
        for b in v {
            out.push_str(&format!("{:02x}", b));
        }
        s.serialize_str(&out)
    }
    pub fn deserialize<'de, D: Deserializer<'de>>(d: D) -> Result<Vec<u8>, D::Error> {
        let s = String::deserialize(d)?;
        let s = s.as_bytes();
        if s.len() % 2 != 0 {
            return Err(serde::de::Error::custom("odd hex length"));
        }
        let nib = |c: u8| -> Result<u8, D::Error> {
            match c {
                b'0'..=b'9' => Ok(c - b'0'),
                b'a'..=b'f' => Ok(c - b'a' + 10),
                b'A'..=b'F' => Ok(c - b'A' + 10),
                _ => Err(serde::de::Error::custom("bad hex")),
            }
        };
        let mut v = Vec::with_capacity(s.len() / 2);
        for p in s.chunks(2) {
            v.push(nib(p[0])? << 4 | nib(p[1])?);
        }
        Ok(v)
    }
}
