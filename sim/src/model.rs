//! Model instructions, the reference encoder (the "producer" side: never calls
//! rspirv's assembler) and the observation function from what the real parser
//! delivers back into model terms.

use crate::kinds::{observe, Obs};
use crate::snapshot::{snap, KindId};
use rspirv::dr;
use serde::de::Error as _;
use serde::{Deserialize, Deserializer, Serialize, Serializer};

pub const MAGIC: u32 = 0x0723_0203;

#[derive(Clone, Debug, PartialEq, Eq)]
pub enum MOp {
    /// one-word operand of the given delivered variant (IdRef, LiteralBit32, Capability, …)
    W(KindId, u32),
    /// LiteralBit64
    L64(u64),
    /// LiteralString
    S(String),
}

impl Serialize for MOp {
    fn serialize<S: Serializer>(&self, s: S) -> Result<S::Ok, S::Error> {
        match self {
            MOp::W(k, v) => (snap().kind_name(*k), *v).serialize(s),
            MOp::L64(v) => ("LiteralBit64", *v).serialize(s),
            MOp::S(v) => ("LiteralString", v).serialize(s),
        }
    }
}

impl<'de> Deserialize<'de> for MOp {
    fn deserialize<D: Deserializer<'de>>(d: D) -> Result<MOp, D::Error> {
        let (k, v): (String, serde_json::Value) = Deserialize::deserialize(d)?;
        match k.as_str() {
            "LiteralString" => Ok(MOp::S(v.as_str().ok_or_else(|| D::Error::custom("string"))?.to_string())),
            "LiteralBit64" => Ok(MOp::L64(v.as_u64().ok_or_else(|| D::Error::custom("u64"))?)),
            _ => {
                let id = *snap().kind_ids.get(&k).ok_or_else(|| D::Error::custom("unknown kind"))?;
                Ok(MOp::W(id, v.as_u64().ok_or_else(|| D::Error::custom("u32"))? as u32))
            }
        }
    }
}

#[derive(Clone, Debug, PartialEq, Eq, Serialize, Deserialize)]
pub struct MInst {
    pub opcode: u16,
    pub rtype: Option<u32>,
    pub rid: Option<u32>,
    pub ops: Vec<MOp>,
}

impl MInst {
    pub fn name(&self) -> String {
        snap().inst(self.opcode).map(|g| g.name.clone()).unwrap_or_else(|| format!("#{}", self.opcode))
    }
    pub fn is(&self, name: &str) -> bool {
        snap().inst(self.opcode).map(|g| g.name == name).unwrap_or(false)
    }
}

pub fn encode_string(s: &str, out: &mut Vec<u32>) {
    let b = s.as_bytes();
    let mut i = 0;
    loop {
        let mut w = [0u8; 4];
        let n = (b.len() - i).min(4);
        w[..n].copy_from_slice(&b[i..i + n]);
        out.push(u32::from_le_bytes(w));
        i += n;
        if n < 4 {
            break; // this word contains the NUL
        }
    }
}

pub fn string_words(s: &str) -> usize {
    s.len() / 4 + 1
}

pub fn encode_op(o: &MOp, out: &mut Vec<u32>) {
    match o {
        MOp::W(_, v) => out.push(*v),
        MOp::L64(v) => {
            out.push(*v as u32);
            out.push((*v >> 32) as u32);
        }
        MOp::S(s) => encode_string(s, out),
    }
}

/// Encoding per the SPIR-V specification.
pub fn encode_inst(i: &MInst, out: &mut Vec<u32>) {
    let start = out.len();
    out.push(0);
    if let Some(t) = i.rtype {
        out.push(t);
    }
    if let Some(r) = i.rid {
        out.push(r);
    }
    for o in &i.ops {
        encode_op(o, out);
    }
    let wc = (out.len() - start) as u32;
    out[start] = (wc << 16) | i.opcode as u32;
}

pub fn inst_words(i: &MInst) -> usize {
    let mut v = vec![];
    encode_inst(i, &mut v);
    v.len()
}

#[derive(Clone, Debug, PartialEq, Eq, Serialize, Deserialize)]
pub struct MHeader {
    pub version: u32,
    pub generator: u32,
    pub bound: u32,
    pub schema: u32,
}

#[derive(Clone, Debug, PartialEq, Eq, Serialize, Deserialize)]
pub struct Stream {
    pub header: MHeader,
    pub insts: Vec<MInst>,
}

impl Stream {
    /// words of the whole binary and, per instruction, its starting word index
    pub fn encode(&self) -> (Vec<u32>, Vec<usize>) {
        let mut w = vec![MAGIC, self.header.version, self.header.generator, self.header.bound, self.header.schema];
        let mut starts = vec![];
        for i in &self.insts {
            starts.push(w.len());
            encode_inst(i, &mut w);
        }
        (w, starts)
    }
}

pub fn words_to_bytes(w: &[u32]) -> Vec<u8> {
    let mut b = Vec::with_capacity(w.len() * 4);
    for x in w {
        b.extend_from_slice(&x.to_le_bytes());
    }
    b
}

/// Observation: what the real parser delivered, as a model instruction.
pub fn to_model(i: &dr::Instruction) -> MInst {
    let s = snap();
    let ops = i
        .operands
        .iter()
        .map(|o| match observe(o) {
            Obs::Word(k, v) => MOp::W(s.kind(k), v),
            Obs::Bit64(v) => MOp::L64(v),
            Obs::Str(st) => MOp::S(st.to_string()),
        })
        .collect();
    MInst {
        opcode: i.class.opcode as u32 as u16,
        rtype: i.result_type,
        rid: i.result_id,
        ops,
    }
}

pub fn show(i: &MInst) -> String {
    let s = snap();
    let mut t = String::new();
    if let Some(r) = i.rid {
        t.push_str(&format!("%{} = ", r));
    }
    t.push_str(&format!("Op{}", i.name()));
    if let Some(r) = i.rtype {
        t.push_str(&format!(" type=%{}", r));
    }
    for o in &i.ops {
        match o {
            MOp::W(k, v) => t.push_str(&format!(" {}:{}", s.kind_name(*k), v)),
            MOp::L64(v) => t.push_str(&format!(" Bit64:{}", v)),
            MOp::S(v) => t.push_str(&format!(" {:?}", v)),
        }
    }
    t
}
