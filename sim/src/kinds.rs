//! The one hand-written list of rspirv's 56 enum/mask operand kinds, used for
//! (a) the observation function dr::Operand -> model operand (exhaustive match:
//! a new variant makes the harness fail to compile, never mis-compare),
//! (b) the typed Decoder requests, (c) building dr::Operand values from numbers
//! for the Builder driver.

use rspirv::binary::{DecodeError, Decoder};
use rspirv::dr::Operand;
use rspirv::spirv;

macro_rules! for_each_kind {
    ($cb:ident) => {
        $cb! {
            masks: [
                (ImageOperands, image_operands),
                (FPFastMathMode, fp_fast_math_mode),
                (SelectionControl, selection_control),
                (LoopControl, loop_control),
                (FunctionControl, function_control),
                (MemorySemantics, memory_semantics),
                (MemoryAccess, memory_access),
                (KernelProfilingInfo, kernel_profiling_info),
                (RayFlags, ray_flags),
                (FragmentShadingRate, fragment_shading_rate),
                (RawAccessChainOperands, raw_access_chain_operands),
                (CooperativeMatrixOperands, cooperative_matrix_operands),
                (CooperativeMatrixReduce, cooperative_matrix_reduce),
                (TensorAddressingOperands, tensor_addressing_operands),
                (MatrixMultiplyAccumulateOperands, matrix_multiply_accumulate_operands)
            ],
            enums: [
                (SourceLanguage, source_language),
                (ExecutionModel, execution_model),
                (AddressingModel, addressing_model),
                (MemoryModel, memory_model),
                (ExecutionMode, execution_mode),
                (StorageClass, storage_class),
                (Dim, dim),
                (SamplerAddressingMode, sampler_addressing_mode),
                (SamplerFilterMode, sampler_filter_mode),
                (ImageFormat, image_format),
                (ImageChannelOrder, image_channel_order),
                (ImageChannelDataType, image_channel_data_type),
                (FPRoundingMode, fp_rounding_mode),
                (FPDenormMode, fp_denorm_mode),
                (QuantizationModes, quantization_modes),
                (FPOperationMode, fp_operation_mode),
                (OverflowModes, overflow_modes),
                (LinkageType, linkage_type),
                (AccessQualifier, access_qualifier),
                (HostAccessQualifier, host_access_qualifier),
                (FunctionParameterAttribute, function_parameter_attribute),
                (Decoration, decoration),
                (BuiltIn, built_in),
                (Scope, scope),
                (GroupOperation, group_operation),
                (KernelEnqueueFlags, kernel_enqueue_flags),
                (Capability, capability),
                (RayQueryIntersection, ray_query_intersection),
                (RayQueryCommittedIntersectionType, ray_query_committed_intersection_type),
                (RayQueryCandidateIntersectionType, ray_query_candidate_intersection_type),
                (PackedVectorFormat, packed_vector_format),
                (CooperativeMatrixLayout, cooperative_matrix_layout),
                (CooperativeMatrixUse, cooperative_matrix_use),
                (TensorClampMode, tensor_clamp_mode),
                (InitializationModeQualifier, initialization_mode_qualifier),
                (LoadCacheControl, load_cache_control),
                (StoreCacheControl, store_cache_control),
                (NamedMaximumNumberOfRegisters, named_maximum_number_of_registers),
                (FPEncoding, fp_encoding),
                (CooperativeVectorMatrixLayout, cooperative_vector_matrix_layout),
                (ComponentType, component_type)
            ]
        }
    };
}

/// What the real parser delivered, in model terms: (variant name, payload).
pub enum Obs<'a> {
    Word(&'static str, u32),
    Bit64(u64),
    Str(&'a str),
}

macro_rules! gen_observe {
    (masks: [$(($mk:ident, $mm:ident)),*], enums: [$(($ek:ident, $em:ident)),*]) => {
        pub fn observe(o: &Operand) -> Obs<'_> {
            match o {
                $( Operand::$mk(v) => Obs::Word(stringify!($mk), v.bits()), )*
                $( Operand::$ek(v) => Obs::Word(stringify!($ek), *v as u32), )*
                Operand::IdMemorySemantics(v) => Obs::Word("IdMemorySemantics", *v),
                Operand::IdScope(v) => Obs::Word("IdScope", *v),
                Operand::IdRef(v) => Obs::Word("IdRef", *v),
                Operand::LiteralBit32(v) => Obs::Word("LiteralBit32", *v),
                Operand::LiteralBit64(v) => Obs::Bit64(*v),
                Operand::LiteralExtInstInteger(v) => Obs::Word("LiteralExtInstInteger", *v),
                Operand::LiteralSpecConstantOpInteger(v) => Obs::Word("LiteralSpecConstantOpInteger", *v as u32),
                Operand::LiteralString(s) => Obs::Str(s),
            }
        }

        /// Names of the typed decoder requests, in table order.
        pub const TYPED_KINDS: &[&str] = &[ $( stringify!($mk), )* $( stringify!($ek), )* ];

        /// Issue the typed decoder request number `idx`; the value comes back as its number.
        pub fn decode_typed(d: &mut Decoder<'_>, idx: usize) -> Result<u32, DecodeError> {
            let mut i = 0usize;
            $( if idx == i { return d.$mm().map(|v| v.bits()); } i += 1; )*
            $( if idx == i { return d.$em().map(|v| v as u32); } i += 1; )*
            let _ = i;
            panic!("decode_typed: index {} out of range", idx)
        }

        /// Build a dr::Operand of the enum/mask kind `kind` from a number that is valid for it.
        pub fn make_operand(kind: &str, w: u32) -> Option<Operand> {
            $( if kind == stringify!($mk) { return spirv::$mk::from_bits(w).map(Operand::$mk); } )*
            $( if kind == stringify!($ek) { return spirv::$ek::from_u32(w).map(Operand::$ek); } )*
            match kind {
                "IdRef" => Some(Operand::IdRef(w)),
                "IdScope" => Some(Operand::IdScope(w)),
                "IdMemorySemantics" => Some(Operand::IdMemorySemantics(w)),
                "LiteralBit32" => Some(Operand::LiteralBit32(w)),
                "LiteralExtInstInteger" => Some(Operand::LiteralExtInstInteger(w)),
                "LiteralSpecConstantOpInteger" => spirv::Op::from_u32(w).map(Operand::LiteralSpecConstantOpInteger),
                _ => None,
            }
        }
    };
}

for_each_kind!(gen_observe);

/// number -> typed value, for the Builder glue
pub trait FromWord: Sized {
    const KIND: &'static str;
    fn from_word(w: u32) -> Option<Self>;
}

macro_rules! gen_from_word {
    (masks: [$(($mk:ident, $mm:ident)),*], enums: [$(($ek:ident, $em:ident)),*]) => {
        $( impl FromWord for spirv::$mk { const KIND: &'static str = stringify!($mk); fn from_word(w: u32) -> Option<Self> { spirv::$mk::from_bits(w) } } )*
        $( impl FromWord for spirv::$ek { const KIND: &'static str = stringify!($ek); fn from_word(w: u32) -> Option<Self> { spirv::$ek::from_u32(w) } } )*
    };
}
for_each_kind!(gen_from_word);

impl FromWord for spirv::Op {
    const KIND: &'static str = "LiteralSpecConstantOpInteger";
    fn from_word(w: u32) -> Option<Self> {
        spirv::Op::from_u32(w)
    }
}
pub(crate) use for_each_kind;
