//! Batch runner: shards seeded runs over single-threaded worker *processes*
//! (crash containment + parallelism over independent simulations), folds the
//! per-shard records in index order, triages violations against
//! known_findings.json, shrinks, writes the replay file, confirms it in a fresh
//! process, writes the evidence file.
//!
//! Exit codes: 0 held (or only KNOWN-FINDINGs), 1 violation, 2 harness error.

use crate::core::*;
use crate::rng::{fnv, mix, Rng};
use serde::{Deserialize, Serialize};
use serde_json::{json, Value};
use std::collections::{BTreeMap, BTreeSet};
use std::io::Write;
use std::os::unix::fs::FileExt;
use std::os::unix::process::ExitStatusExt;
use std::path::{Path, PathBuf};
use std::process::{Command, Stdio};
use std::time::{Duration, Instant};

pub fn verif_root() -> PathBuf {
    if let Ok(r) = std::env::var("VERIF_ROOT") {
        return PathBuf::from(r);
    }
    let mut p = PathBuf::from(env!("CARGO_MANIFEST_DIR"));
    p.pop();
    p
}

pub fn seed_from_env() -> u64 {
    std::env::var("VERIF_SEED")
        .ok()
        .and_then(|s| s.trim().parse::<i128>().ok())
        .map(|v| v as u64)
        .unwrap_or(20261001)
}

fn workers_from_env() -> u64 {
    std::env::var("VERIF_WORKERS")
        .ok()
        .and_then(|s| s.parse().ok())
        .filter(|n| *n >= 1)
        .unwrap_or_else(|| std::thread::available_parallelism().map(|n| n.get() as u64).unwrap_or(16).min(16))
}

pub fn run_seed<P: Property>(seed: u64, run: u64) -> u64 {
    mix(seed, fnv(P::ID), run)
}

pub fn gen_trace<P: Property>(seed: u64, run: u64, tier: Tier) -> P::Trace {
    let mut rng = Rng::new(run_seed::<P>(seed, run));
    P::generate(&mut rng, tier)
}

/// Execute with a safety net: a panic escaping the property's own executor is
/// attributed to the code under test if it was raised there, otherwise it is a
/// harness error (process exits 3 -> parent reports exit 2).
pub fn exec_safely<P: Property>(t: &P::Trace, cov: &mut Cov) -> RunOut {
    match guarded(|| P::execute(t, cov)) {
        Ok(o) => o,
        Err(pi) => {
            if pi.in_repo() {
                RunOut {
                    violation: Some(Violation::new(
                        &format!("{}.panic", P::ID),
                        pi.locus(),
                        0,
                        pi.detail(),
                    )),
                    abs_hash: 0,
                    nontrivial: false,
                }
            } else {
                eprintln!("HARNESS-ERROR: harness panicked: {}", pi.detail());
                std::process::exit(3);
            }
        }
    }
}

#[derive(Serialize, Deserialize, Clone)]
struct ViolRec {
    run: u64,
    v: Violation,
}

#[derive(Serialize, Deserialize, Default)]
struct ShardOut {
    runs_done: u64,
    nontrivial: u64,
    counters: BTreeMap<String, u64>,
    triples: Vec<(u32, u32, u32)>,
    items: Vec<u32>,
    violations: Vec<ViolRec>,
    stopped_early: bool,
    #[serde(default)]
    known_hits: u64,
}

fn bitmap_bits(total_runs: u64) -> usize {
    let want = (total_runs.max(1) * 8).next_power_of_two();
    want.clamp(1 << 20, 1 << 28) as usize
}

const MAX_VIOL_PER_SHARD: usize = 200;

/// `sim worker <P> <tier> <seed> <start> <end> <total> <prefix>`
pub fn worker<P: Property>(tier: Tier, seed: u64, start: u64, end: u64, total: u64, prefix: &str) -> ! {
    install_panic_hook();
    let status = std::fs::OpenOptions::new()
        .create(true)
        .write(true)
        .truncate(true)
        .open(format!("{}.status", prefix))
        .expect("status file");
    let nbits = bitmap_bits(total);
    let mut bits = vec![0u8; nbits / 8];
    let mut cov = Cov::default();
    let mut out = ShardOut::default();
    let known = load_known();
    let mut known_seen: Vec<(String, String)> = vec![];
    let mut new_count = 0usize;
    let mut runlog: Option<std::io::BufWriter<std::fs::File>> = if std::env::var("VERIF_RUNLOG").is_ok() {
        Some(std::io::BufWriter::new(std::fs::File::create(format!("{}.runlog", prefix)).expect("runlog")))
    } else {
        None
    };
    for run in start..end {
        let _ = status.write_all_at(&run.to_le_bytes(), 0);
        let t = match guarded(|| gen_trace::<P>(seed, run, tier)) {
            Ok(t) => t,
            Err(pi) => {
                eprintln!("HARNESS-ERROR: trace generator panicked on run {}: {}", run, pi.detail());
                std::process::exit(3);
            }
        };
        let o = exec_safely::<P>(&t, &mut cov);
        out.runs_done += 1;
        if let Some(w) = runlog.as_mut() {
            // event log for the determinism self-test: trace hash, abstract-trace hash, verdict
            let th = crate::rng::fnv_bytes(0xcbf2_9ce4_8422_2325, &serde_json::to_vec(&t).unwrap());
            let _ = writeln!(w, "{} {:016x} {:016x} {} {}", run, th, o.abs_hash, o.nontrivial as u8, o.violation.as_ref().map(|v| format!("{}|{}|{}", v.clause, v.locus, v.step)).unwrap_or_else(|| "-".into()));
        }
        if o.nontrivial {
            out.nontrivial += 1;
            let b = (o.abs_hash as usize) & (nbits - 1);
            bits[b >> 3] |= 1 << (b & 7);
        }
        if let Some(v) = o.violation {
            if is_known(&known, P::ID, &v).is_some() {
                // a listed finding: keep only the first occurrence, never stop the shard for it
                out.known_hits += 1;
                if !known_seen.contains(&v.key()) {
                    known_seen.push(v.key());
                    out.violations.push(ViolRec { run, v });
                }
            } else {
                out.violations.push(ViolRec { run, v });
                new_count += 1;
                if new_count >= MAX_VIOL_PER_SHARD {
                    out.stopped_early = true;
                    break;
                }
            }
        }
    }
    let _ = status.write_all_at(&u64::MAX.to_le_bytes(), 0);
    if let Some(mut w) = runlog.take() {
        let _ = w.flush();
    }
    for (k, v) in &cov.counters {
        *out.counters.entry(k.to_string()).or_insert(0) += v;
    }
    for (k, v) in &cov.dyn_counters {
        *out.counters.entry(k.clone()).or_insert(0) += v;
    }
    out.triples = cov.triples.iter().cloned().collect();
    out.items = cov.items.iter().cloned().collect();
    std::fs::write(format!("{}.bits", prefix), &bits).expect("bits");
    std::fs::write(format!("{}.json", prefix), serde_json::to_vec(&out).unwrap()).expect("shard out");
    std::process::exit(0)
}

#[derive(Deserialize, Clone)]
pub struct KnownFinding {
    pub property: String,
    pub clause: String,
    pub locus: String,
    pub status: String,
    pub what: String,
    #[serde(default)]
    pub commit: Option<String>,
}

pub fn load_known() -> Vec<KnownFinding> {
    let p = verif_root().join("known_findings.json");
    match std::fs::read(&p) {
        Ok(b) => match serde_json::from_slice::<Vec<KnownFinding>>(&b) {
            Ok(v) => v,
            Err(e) => {
                eprintln!("HARNESS-ERROR: cannot parse {}: {}", p.display(), e);
                std::process::exit(2);
            }
        },
        Err(_) => vec![],
    }
}

fn is_known(known: &[KnownFinding], prop: &str, v: &Violation) -> Option<KnownFinding> {
    known
        .iter()
        .find(|k| k.status == "known" && k.property == prop && k.clause == v.clause && k.locus == v.locus)
        .cloned()
}

#[derive(Serialize, Deserialize)]
pub struct ReplayFile {
    pub property: String,
    pub seed: u64,
    pub run: u64,
    pub tier: String,
    pub trace: Value,
    pub violation: Violation,
    #[serde(default)]
    pub shrink_steps: u64,
}

fn shrink<P: Property>(t0: &P::Trace, v0: &Violation) -> (P::Trace, Violation, u64) {
    let mut cur = t0.clone();
    let mut curv = v0.clone();
    let mut execs = 0u64;
    let mut dummy = Cov::default();
    'outer: loop {
        let cands = P::shrink(&cur);
        for c in cands {
            if execs >= 3000 {
                break 'outer;
            }
            execs += 1;
            let o = exec_safely::<P>(&c, &mut dummy);
            if let Some(v) = o.violation {
                if v.key() == v0.key() {
                    cur = c;
                    curv = v;
                    continue 'outer;
                }
            }
        }
        break;
    }
    (cur, curv, execs)
}

struct Child {
    proc: std::process::Child,
    prefix: String,
    start: u64,
    end: u64,
    last_idx: u64,
    last_change: Instant,
}

fn read_status(prefix: &str) -> Option<u64> {
    let b = std::fs::read(format!("{}.status", prefix)).ok()?;
    if b.len() < 8 {
        return None;
    }
    Some(u64::from_le_bytes(b[..8].try_into().unwrap()))
}

fn spawn_worker<P: Property>(tier: Tier, seed: u64, start: u64, end: u64, total: u64, prefix: &str) -> Child {
    let exe = std::env::current_exe().expect("current_exe");
    let log = std::fs::File::create(format!("{}.log", prefix)).expect("log");
    let proc = Command::new(exe)
        .args([
            "worker",
            P::ID,
            tier.name(),
            &seed.to_string(),
            &start.to_string(),
            &end.to_string(),
            &total.to_string(),
            prefix,
        ])
        .stdin(Stdio::null())
        .stdout(Stdio::from(log.try_clone().unwrap()))
        .stderr(Stdio::from(log))
        .spawn()
        .expect("spawn worker");
    Child {
        proc,
        prefix: prefix.to_string(),
        start,
        end,
        last_idx: u64::MAX - 1,
        last_change: Instant::now(),
    }
}

pub fn scratch_dir() -> PathBuf {
    let d = verif_root().join("target").join("scratch");
    let _ = std::fs::create_dir_all(&d);
    d
}

const HANG_SECS: u64 = 180;
const MAX_CRASHED_RUNS: usize = 6;

pub struct BatchResult {
    pub exit: i32,
}

pub fn run_check<P: Property>(tier: Tier) -> i32 {
    install_panic_hook();
    let t_start = Instant::now();
    let seed = seed_from_env();
    let total: u64 = std::env::var("VERIF_RUNS")
        .ok()
        .and_then(|s| s.parse().ok())
        .unwrap_or_else(|| P::runs(tier));
    let nworkers = workers_from_env().min(total.max(1));
    let known = load_known();
    let meta = P::meta();
    println!(
        "[{}] tier={} VERIF_SEED={} runs={} workers={}",
        P::ID,
        tier.name(),
        seed,
        total,
        nworkers
    );

    // ---- all violations found, keyed by (clause, locus), lowest run first ----
    let mut found: BTreeMap<(String, String), (u64, Violation, Option<Value>)> = BTreeMap::new();

    // ---- 1. regression replays committed for this property -------------------
    let mut regress_n = 0u64;
    let rdir = verif_root().join("regress").join(P::ID);
    if let Ok(rd) = std::fs::read_dir(&rdir) {
        let mut files: Vec<PathBuf> = rd.filter_map(|e| e.ok().map(|e| e.path())).filter(|p| p.extension().map(|x| x == "json").unwrap_or(false)).collect();
        files.sort();
        for f in files {
            regress_n += 1;
            match replay_in_child(&f) {
                ReplayOutcome::Violation(v) => {
                    let rf: ReplayFile = serde_json::from_slice(&std::fs::read(&f).unwrap()).unwrap();
                    println!("[{}] regression file {} reproduces: {} {}", P::ID, f.display(), v.clause, v.locus);
                    found.entry(v.key()).or_insert((u64::MAX, v, Some(rf.trace)));
                }
                ReplayOutcome::Clean => {}
                ReplayOutcome::HarnessError(m) => {
                    eprintln!("HARNESS-ERROR: regression replay {}: {}", f.display(), m);
                    return 2;
                }
            }
        }
    }

    // ---- 2. seeded batch over worker processes ---------------------------------
    let sdir = scratch_dir().join(format!("{}-{}-{}", P::ID, tier.name(), std::process::id()));
    let _ = std::fs::remove_dir_all(&sdir);
    std::fs::create_dir_all(&sdir).expect("scratch");
    let per = total.div_ceil(nworkers.max(1));
    let mut children: Vec<Child> = vec![];
    let mut next_prefix = 0u64;
    let mut mk_prefix = |sdir: &Path| {
        next_prefix += 1;
        sdir.join(format!("w{}", next_prefix)).to_string_lossy().to_string()
    };
    for w in 0..nworkers {
        let s = w * per;
        let e = ((w + 1) * per).min(total);
        if s >= e {
            continue;
        }
        let prefix = mk_prefix(&sdir);
        children.push(spawn_worker::<P>(tier, seed, s, e, total, &prefix));
    }
    let mut shard_outs: Vec<(u64, ShardOut, Vec<u8>)> = vec![];
    let mut crashed_runs: Vec<(u64, String)> = vec![];
    while !children.is_empty() {
        std::thread::sleep(Duration::from_millis(15));
        let mut i = 0;
        while i < children.len() {
            let c = &mut children[i];
            let idx = read_status(&c.prefix).unwrap_or(u64::MAX - 1);
            if idx != c.last_idx {
                c.last_idx = idx;
                c.last_change = Instant::now();
            }
            let mut finished: Option<std::process::ExitStatus> = None;
            let mut hang = false;
            match c.proc.try_wait() {
                Ok(Some(st)) => finished = Some(st),
                Ok(None) => {
                    if c.last_change.elapsed() > Duration::from_secs(HANG_SECS) {
                        let _ = c.proc.kill();
                        finished = c.proc.wait().ok();
                        hang = true;
                    }
                }
                Err(e) => {
                    eprintln!("HARNESS-ERROR: wait: {}", e);
                    return 2;
                }
            }
            if let Some(st) = finished {
                let c = children.swap_remove(i);
                if st.success() && !hang {
                    let js = std::fs::read(format!("{}.json", c.prefix));
                    let bits = std::fs::read(format!("{}.bits", c.prefix));
                    match (js, bits) {
                        (Ok(js), Ok(bits)) => {
                            let so: ShardOut = serde_json::from_slice(&js).expect("shard json");
                            shard_outs.push((c.start, so, bits));
                        }
                        _ => {
                            eprintln!("HARNESS-ERROR: worker output missing for {}", c.prefix);
                            return 2;
                        }
                    }
                } else if st.code().is_some() && !hang {
                    let log = std::fs::read_to_string(format!("{}.log", c.prefix)).unwrap_or_default();
                    eprintln!("HARNESS-ERROR: worker reported a harness panic:\n{}", log);
                    return 2;
                } else {
                    // died on a signal / aborted / hung: run `last_idx` is the culprit
                    let idx = read_status(&c.prefix).unwrap_or(c.start);
                    let why = if hang {
                        format!("hang>{}s", HANG_SECS)
                    } else if let Some(sig) = st.signal() {
                        format!("signal={}", sig)
                    } else {
                        format!("exit={:?}", st.code())
                    };
                    if idx >= c.start && idx < c.end {
                        crashed_runs.push((idx, why));
                        // the results of runs c.start..idx are lost with the process; redo
                        // them (cheap, deterministic) and continue after the culprit
                        if idx > c.start {
                            let prefix = mk_prefix(&sdir);
                            children.push(spawn_worker::<P>(tier, seed, c.start, idx, total, &prefix));
                        }
                        // every crash / hang found is reported; after MAX_CRASHED_RUNS of them the rest of that shard is
                        // not explored any more (a hang costs HANG_SECS each: the verdict is "violated" already)
                        if crashed_runs.len() >= MAX_CRASHED_RUNS {
                            eprintln!("[{}] {} runs crashed or hung: the remainder of this shard ({}..{}) is not explored", P::ID, crashed_runs.len(), idx + 1, c.end);
                        } else if idx + 1 < c.end {
                            let prefix = mk_prefix(&sdir);
                            children.push(spawn_worker::<P>(tier, seed, idx + 1, c.end, total, &prefix));
                        }
                    } else {
                        let log = std::fs::read_to_string(format!("{}.log", c.prefix)).unwrap_or_default();
                        eprintln!("HARNESS-ERROR: worker died outside a run ({}):\n{}", why, log);
                        return 2;
                    }
                }
                continue;
            }
            i += 1;
        }
    }
    shard_outs.sort_by_key(|s| s.0);

    // ---- 3. fold in index order -----------------------------------------------
    let nbits = bitmap_bits(total);
    let mut bits = vec![0u8; nbits / 8];
    let mut counters: BTreeMap<String, u64> = BTreeMap::new();
    let mut triples: BTreeSet<(u32, u32, u32)> = BTreeSet::new();
    let mut items: BTreeSet<u32> = BTreeSet::new();
    let mut runs_done = 0u64;
    let mut nontrivial = 0u64;
    let mut viol_total = 0u64;
    for (_, so, b) in &shard_outs {
        runs_done += so.runs_done;
        nontrivial += so.nontrivial;
        for (k, v) in &so.counters {
            *counters.entry(k.clone()).or_insert(0) += v;
        }
        triples.extend(so.triples.iter().cloned());
        items.extend(so.items.iter().cloned());
        for (x, y) in bits.iter_mut().zip(b.iter()) {
            *x |= *y;
        }
        viol_total += so.known_hits;
        for vr in &so.violations {
            if is_known(&known, P::ID, &vr.v).is_none() {
                viol_total += 1;
            }
            let e = found.entry(vr.v.key()).or_insert((vr.run, vr.v.clone(), None));
            if vr.run < e.0 {
                *e = (vr.run, vr.v.clone(), None);
            }
        }
    }
    let distinct: u64 = bits.iter().map(|b| b.count_ones() as u64).sum();
    crashed_runs.sort();
    for (run, why) in &crashed_runs {
        if P::crash_is_violation() {
            viol_total += 1;
            let v = Violation::new(
                &format!("{}.crash", P::ID),
                why.split('>').next().unwrap_or(why).to_string(),
                0,
                format!("worker process died ({}) while executing run {}", why, run),
            );
            let e = found.entry(v.key()).or_insert((*run, v.clone(), None));
            if *run < e.0 {
                *e = (*run, v, None);
            }
        }
    }
    let _ = std::fs::remove_dir_all(&sdir);

    // ---- 4. triage -------------------------------------------------------------
    let mut exit = 0;
    let mut known_lines: Vec<String> = vec![];
    let mut new_viol: Vec<String> = vec![];
    let mut unreproducible = 0u64;
    for ((_clause, _locus), (run, v, trace_opt)) in &found {
        if let Some(k) = is_known(&known, P::ID, v) {
            known_lines.push(format!("KNOWN-FINDING: property={} {} [{} {}]", P::ID, k.what, v.clause, v.locus));
            continue;
        }
        // new violation: shrink, write replay, confirm in a fresh process
        let is_crash = v.clause.ends_with(".crash");
        let (trace_val, vfinal, steps) = if let Some(tv) = trace_opt {
            (tv.clone(), v.clone(), 0)
        } else {
            let t = gen_trace::<P>(seed, *run, tier);
            if is_crash {
                (serde_json::to_value(&t).unwrap(), v.clone(), 0)
            } else {
                // re-derive in process (also a determinism check of generate+execute)
                let mut dummy = Cov::default();
                let o = exec_safely::<P>(&t, &mut dummy);
                match o.violation {
                    // (a violation of another identity on the same trace can happen when the code under
                    // test keeps state across runs of one process: report what reproduces)
                    Some(v2) => {
                        if v2.key() != v.key() {
                            println!("[{}] note: run {} reported {:?} in its worker and {:?} when re-derived in a fresh context; reporting the latter", P::ID, run, v.key(), v2.key());
                        }
                        let (ts, vs, n) = shrink::<P>(&t, &v2);
                        (serde_json::to_value(&ts).unwrap(), vs, n)
                    }
                    None => {
                        println!(
                            "[{}] note: run {} reported {:?} in its worker but is clean when re-derived: the outcome depends on earlier runs of the same process (state kept across runs by the code under test?); not reported under this identity",
                            P::ID, run, v.key()
                        );
                        unreproducible += 1;
                        continue;
                    }
                }
            }
        };
        let rdir = verif_root().join("replays");
        let _ = std::fs::create_dir_all(&rdir);
        let runtag = if *run == u64::MAX { "regress".to_string() } else { run.to_string() };
        let slug: String = format!("{}-{}", vfinal.clause, vfinal.locus)
            .chars()
            .map(|c| if c.is_ascii_alphanumeric() || c == '.' || c == '-' { c } else { '_' })
            .take(80)
            .collect();
        let path = rdir.join(format!("{}-{}-{}-{}.json", P::ID, seed, runtag, slug));
        let rf = ReplayFile {
            property: P::ID.to_string(),
            seed,
            run: *run,
            tier: tier.name().to_string(),
            trace: trace_val,
            violation: vfinal.clone(),
            shrink_steps: steps,
        };
        std::fs::write(&path, serde_json::to_vec_pretty(&rf).unwrap()).expect("write replay");
        match replay_in_child(&path) {
            ReplayOutcome::Violation(v3) if v3.key() == vfinal.key() && v3.step == vfinal.step => {
                new_viol.push(format!("VIOLATION property={} replay={}", P::ID, path.display()));
                println!("  clause={} locus={} step={}\n  detail: {}", vfinal.clause, vfinal.locus, vfinal.step, vfinal.detail);
                exit = 1;
            }
            ReplayOutcome::Violation(v3) => {
                // reproduces a violation, but of another identity/step than in this process (state kept
                // across runs by the code under test): the fresh-process result is the authoritative one
                let mut rf2 = rf;
                rf2.violation = v3.clone();
                std::fs::write(&path, serde_json::to_vec_pretty(&rf2).unwrap()).expect("write replay");
                println!("[{}] note: fresh-process replay gives {:?} step {} (in-process: {:?} step {}); recorded the fresh-process result", P::ID, v3.key(), v3.step, vfinal.key(), vfinal.step);
                new_viol.push(format!("VIOLATION property={} replay={}", P::ID, path.display()));
                println!("  clause={} locus={} step={}\n  detail: {}", v3.clause, v3.locus, v3.step, v3.detail);
                exit = 1;
            }
            ReplayOutcome::Clean => {
                println!("[{}] note: violation {:?} did not reproduce from {} in a fresh process; not reported", P::ID, vfinal.key(), path.display());
                let _ = std::fs::remove_file(&path);
                unreproducible += 1;
            }
            ReplayOutcome::HarnessError(m) => {
                eprintln!("HARNESS-ERROR: replay of {} failed: {}", path.display(), m);
                return 2;
            }
        }
    }
    if unreproducible > 0 && new_viol.is_empty() {
        eprintln!("HARNESS-ERROR: {} violating run(s) did not reproduce outside their worker process and nothing else was found", unreproducible);
        return 2;
    }
    known_lines.sort();
    known_lines.dedup();
    for l in &known_lines {
        println!("{}", l);
    }
    for l in &new_viol {
        println!("{}", l);
    }

    // ---- 5. evidence -------------------------------------------------------------
    let wall = t_start.elapsed().as_secs_f64();
    let samples: Vec<Value> = (0..2.min(total))
        .map(|i| json!({"run": i, "run_seed": run_seed::<P>(seed, i), "trace": serde_json::to_value(gen_trace::<P>(seed, i, tier)).unwrap()}))
        .collect();
    let faults: BTreeMap<String, u64> = counters
        .iter()
        .filter(|(k, _)| k.starts_with("fault."))
        .map(|(k, v)| (k.clone(), *v))
        .collect();
    let probes: BTreeMap<String, u64> = counters
        .iter()
        .filter(|(k, _)| k.starts_with("reached."))
        .map(|(k, v)| (k.clone(), *v))
        .collect();
    let steps = counters.get("steps").cloned().unwrap_or(0);
    let ev = json!({
        "property_id": P::ID,
        "tier": tier.name(),
        "seed": seed as i64,
        "level": meta.level,
        "coverage": {
            "evaluations": runs_done + regress_n,
            "distinct_nontrivial": distinct,
            "rule": meta.rule,
            "additional_lanes": meta.lanes,
            "samples": samples,
            "nontrivial_runs": nontrivial,
            "distinct_measure": format!("set bits of a {}-bit bitmap indexed by the abstract-trace hash of each non-trivial run (a lower bound on distinct abstract traces)", nbits),
            "state_triples": triples.len(),
            "state_triple_measure": meta.triple_measure,
            "items_covered": items.len(),
            "item_measure": meta.item_measure,
            "faults_fired": faults,
            "fault_kinds_available": meta.fault_kinds,
            "probes": probes,
            "counters": counters,
            "logical_steps": steps,
            "simulated_time": "none: no code under test reads a clock; progress is measured in logical steps (calls executed / callbacks delivered / faults fired)",
            "runs_per_hour": if wall > 0.0 { (runs_done as f64 / wall * 3600.0) as u64 } else { 0 },
            "seeds_per_hour": if wall > 0.0 { (runs_done as f64 / wall * 3600.0) as u64 } else { 0 },
            "regression_replays": regress_n,
            "crashed_runs": crashed_runs.len(),
            "violating_runs": viol_total,
            "components_real": meta.real_components,
            "components_simulated": meta.simulated_components,
            "workers": nworkers,
        },
        "assumptions": meta.assumptions,
        "wall_s": wall,
        "violations": new_viol.len(),
        "known_findings_hit": known_lines.len(),
    });
    let edir = verif_root().join("evidence");
    let _ = std::fs::create_dir_all(&edir);
    let epath = edir.join(format!("{}.json", P::ID));
    let tmp = edir.join(format!("{}.json.tmp", P::ID));
    std::fs::write(&tmp, serde_json::to_vec_pretty(&ev).unwrap()).expect("evidence");
    std::fs::rename(&tmp, &epath).expect("evidence rename");
    println!(
        "[{}] runs={} distinct_nontrivial={} triples={} items={} violating_runs={} new={} known={} wall={:.1}s",
        P::ID,
        runs_done,
        distinct,
        triples.len(),
        items.len(),
        viol_total,
        new_viol.len(),
        known_lines.len(),
        wall
    );
    let _ = std::io::stdout().flush();
    exit
}

// ---------------------------------------------------------------------------
// replay

pub enum ReplayOutcome {
    Violation(Violation),
    Clean,
    HarnessError(String),
}

/// Runs `sim replay-exec <file>` in a fresh process and interprets the result.
pub fn replay_in_child(path: &Path) -> ReplayOutcome {
    let exe = std::env::current_exe().expect("current_exe");
    let mut cmd = Command::new(exe);
    cmd.arg("replay-exec").arg(path).stdin(Stdio::null()).stdout(Stdio::piped()).stderr(Stdio::piped());
    let mut child = match cmd.spawn() {
        Ok(c) => c,
        Err(e) => return ReplayOutcome::HarnessError(format!("spawn: {}", e)),
    };
    let t0 = Instant::now();
    let status = loop {
        match child.try_wait() {
            Ok(Some(st)) => break st,
            Ok(None) => {
                if t0.elapsed() > Duration::from_secs(HANG_SECS) {
                    let _ = child.kill();
                    let _ = child.wait();
                    let prop = prop_of(path);
                    return ReplayOutcome::Violation(Violation::new(&format!("{}.crash", prop), "hang", 0, "replay hung"));
                }
                std::thread::sleep(Duration::from_millis(5));
            }
            Err(e) => return ReplayOutcome::HarnessError(format!("wait: {}", e)),
        }
    };
    let mut out = String::new();
    let mut err = String::new();
    use std::io::Read;
    if let Some(mut o) = child.stdout.take() {
        let _ = o.read_to_string(&mut out);
    }
    if let Some(mut e) = child.stderr.take() {
        let _ = e.read_to_string(&mut err);
    }
    if let Some(sig) = status.signal() {
        let prop = prop_of(path);
        return ReplayOutcome::Violation(Violation::new(
            &format!("{}.crash", prop),
            format!("signal={}", sig),
            0,
            format!("replay process died on signal {}", sig),
        ));
    }
    match status.code() {
        Some(0) => ReplayOutcome::Clean,
        Some(1) => {
            for l in out.lines() {
                if let Some(js) = l.strip_prefix("REPLAY-RESULT ") {
                    if let Ok(v) = serde_json::from_str::<Violation>(js) {
                        return ReplayOutcome::Violation(v);
                    }
                }
            }
            ReplayOutcome::HarnessError(format!("exit 1 without REPLAY-RESULT: {} {}", out, err))
        }
        c => ReplayOutcome::HarnessError(format!("replay-exec exit {:?}: {} {}", c, out, err)),
    }
}

fn prop_of(path: &Path) -> String {
    std::fs::read(path)
        .ok()
        .and_then(|b| serde_json::from_slice::<Value>(&b).ok())
        .and_then(|v| v.get("property").and_then(|p| p.as_str()).map(|s| s.to_string()))
        .unwrap_or_else(|| "C??".into())
}

/// `sim replay-exec <file>`: execute the stored trace verbatim in this process.
pub fn replay_exec<P: Property>(rf: &ReplayFile) -> i32 {
    install_panic_hook();
    let t: P::Trace = match serde_json::from_value(rf.trace.clone()) {
        Ok(t) => t,
        Err(e) => {
            eprintln!("HARNESS-ERROR: replay trace does not deserialize: {}", e);
            return 2;
        }
    };
    let mut cov = Cov::default();
    let o = exec_safely::<P>(&t, &mut cov);
    match o.violation {
        Some(v) => {
            println!("REPLAY-RESULT {}", serde_json::to_string(&v).unwrap());
            1
        }
        None => 0,
    }
}

/// `sim replay <file>`: user-facing; exit 1 + VIOLATION line iff the stored violation reproduces.
pub fn replay_cmd(path: &Path) -> i32 {
    let rf: ReplayFile = match std::fs::read(path).map_err(|e| e.to_string()).and_then(|b| serde_json::from_slice(&b).map_err(|e| e.to_string())) {
        Ok(r) => r,
        Err(e) => {
            eprintln!("HARNESS-ERROR: cannot read replay file {}: {}", path.display(), e);
            return 2;
        }
    };
    match replay_in_child(path) {
        ReplayOutcome::Violation(v) => {
            println!("replayed: clause={} locus={} step={}\n  detail: {}", v.clause, v.locus, v.step, v.detail);
            if v.key() == rf.violation.key() && v.step == rf.violation.step {
                println!("reproduces the recorded violation exactly");
            } else {
                println!(
                    "NOTE: recorded violation was clause={} locus={} step={}",
                    rf.violation.clause, rf.violation.locus, rf.violation.step
                );
            }
            println!("VIOLATION property={} replay={}", rf.property, path.display());
            1
        }
        ReplayOutcome::Clean => {
            println!("replay of {}: no violation (recorded: {} {})", path.display(), rf.violation.clause, rf.violation.locus);
            0
        }
        ReplayOutcome::HarnessError(m) => {
            eprintln!("HARNESS-ERROR: {}", m);
            2
        }
    }
}

/// `sim selftest determinism <P> <n>`: the same n seeded runs executed (a) by one worker process,
/// (b) sharded over 16 worker processes, (c) by one worker again (another process, another hash
/// seed); the per-run event logs (trace hash, abstract-trace hash, verdict) must be identical.
pub fn determinism<P: Property>(n: u64) -> i32 {
    let seed = seed_from_env();
    let sdir = scratch_dir().join(format!("det-{}-{}", P::ID, std::process::id()));
    let _ = std::fs::remove_dir_all(&sdir);
    std::fs::create_dir_all(&sdir).expect("scratch");
    std::env::set_var("VERIF_RUNLOG", "1");
    let mut logs: Vec<Vec<String>> = vec![];
    for (cfg, workers) in [("a", 1u64), ("b", 16), ("c", 3)] {
        let per = n.div_ceil(workers);
        let mut children = vec![];
        for w in 0..workers {
            let (s0, e0) = (w * per, ((w + 1) * per).min(n));
            if s0 >= e0 {
                continue;
            }
            let prefix = sdir.join(format!("{}{}", cfg, w)).to_string_lossy().to_string();
            children.push(spawn_worker::<P>(Tier::Quick, seed, s0, e0, n, &prefix));
        }
        let mut lines: Vec<String> = vec![];
        for mut c in children {
            let st = c.proc.wait().expect("wait");
            if !st.success() {
                eprintln!("HARNESS-ERROR: determinism worker failed: {:?} (see {}.log)", st, c.prefix);
                return 2;
            }
            let txt = std::fs::read_to_string(format!("{}.runlog", c.prefix)).unwrap_or_default();
            lines.extend(txt.lines().map(|l| l.to_string()));
        }
        lines.sort_by_key(|l| l.split(' ').next().and_then(|x| x.parse::<u64>().ok()).unwrap_or(0));
        logs.push(lines);
    }
    let _ = std::fs::remove_dir_all(&sdir);
    let mut diffs = 0;
    for i in 0..logs[0].len().max(logs[1].len()).max(logs[2].len()) {
        let a = logs[0].get(i);
        if a != logs[1].get(i) || a != logs[2].get(i) {
            if diffs < 2 {
                println!("  run log differs at line {}:\n    1 worker : {:?}\n    16 workers: {:?}\n    3 workers : {:?}", i, a, logs[1].get(i), logs[2].get(i));
            }
            diffs += 1;
        }
    }
    println!("[{}] determinism: {} runs x 3 process layouts, {} differing log lines", P::ID, logs[0].len(), diffs);
    if diffs == 0 {
        0
    } else {
        2
    }
}

/// `sim inproc <P> <start> <count>`: run seeded runs sequentially in THIS process (no worker
/// processes, no guard pages under Miri). Used by the Miri lane.
pub fn inproc<P: Property>(start: u64, count: u64) -> i32 {
    install_panic_hook();
    let seed = seed_from_env();
    let mut cov = Cov::default();
    let mut bad = 0;
    for run in start..start + count {
        let t = gen_trace::<P>(seed, run, Tier::Quick);
        let o = exec_safely::<P>(&t, &mut cov);
        if let Some(v) = o.violation {
            println!("INPROC-VIOLATION property={} run={} clause={} locus={} detail={}", P::ID, run, v.clause, v.locus, v.detail);
            bad += 1;
        }
    }
    println!("[{}] inproc runs {}..{} done, {} violating", P::ID, start, start + count, bad);
    if bad == 0 {
        0
    } else {
        1
    }
}
