//! SPIR-V logical-layout classes and the reference loader automaton (DESIGN §3.4).
//! Hand transcription from the SPIR-V specification for the opcode classes the
//! properties name; deliberately NOT derived from rspirv's grammar::reflect.

use crate::model::MInst;
use crate::snapshot::snap;
use std::collections::BTreeMap;
use std::sync::OnceLock;

#[derive(Clone, Copy, Debug, PartialEq, Eq, PartialOrd, Ord)]
pub enum Lc {
    /// module-level section 0..=10
    Section(u8),
    Function,
    FunctionEnd,
    Parameter,
    Label,
    Terminator,
    Variable,
    Undef,
    /// OpLine / OpNoLine
    Line,
    /// ordinary block instruction, core opcode: safe member of the judged alphabets
    Block,
    /// vendor / context-dependent opcode: ordinary traffic for parser-only properties,
    /// outside every alphabet that judges placement
    Other,
}

pub const SEC_CAP: u8 = 0;
pub const SEC_EXT: u8 = 1;
pub const SEC_IMPORT: u8 = 2;
pub const SEC_MEMMODEL: u8 = 3;
pub const SEC_ENTRY: u8 = 4;
pub const SEC_EXECMODE: u8 = 5;
pub const SEC_DEBUGSTR: u8 = 6;
pub const SEC_NAMES: u8 = 7;
pub const SEC_MODPROC: u8 = 8;
pub const SEC_ANNOT: u8 = 9;
pub const SEC_TYPES: u8 = 10;

pub const SECTION_NAMES: [&str; 11] = [
    "capabilities",
    "extensions",
    "ext_inst_imports",
    "memory_model",
    "entry_points",
    "execution_modes",
    "debug_string_source",
    "debug_names",
    "debug_module_processed",
    "annotations",
    "types_global_values",
];

const TABLE: &[(u8, &[&str])] = &[
    (0, &["Capability"]),
    (1, &["Extension"]),
    (2, &["ExtInstImport"]),
    (3, &["MemoryModel"]),
    (4, &["EntryPoint"]),
    (5, &["ExecutionMode", "ExecutionModeId"]),
    (6, &["String", "SourceExtension", "Source", "SourceContinued"]),
    (7, &["Name", "MemberName"]),
    (8, &["ModuleProcessed"]),
    (
        9,
        &[
            "Decorate",
            "MemberDecorate",
            "DecorationGroup",
            "GroupDecorate",
            "GroupMemberDecorate",
            "DecorateId",
            "DecorateString",
            "MemberDecorateString",
            "MemberDecorateStringGOOGLE",
            "DecorateStringGOOGLE",
        ],
    ),
    (
        10,
        &[
            "TypeVoid",
            "TypeBool",
            "TypeInt",
            "TypeFloat",
            "TypeVector",
            "TypeMatrix",
            "TypeImage",
            "TypeSampler",
            "TypeSampledImage",
            "TypeArray",
            "TypeRuntimeArray",
            "TypeStruct",
            "TypeOpaque",
            "TypePointer",
            "TypeFunction",
            "TypeEvent",
            "TypeDeviceEvent",
            "TypeReserveId",
            "TypeQueue",
            "TypePipe",
            "TypeForwardPointer",
            "TypePipeStorage",
            "TypeNamedBarrier",
            "TypeRayQueryKHR",
            "TypeAccelerationStructureKHR",
            "TypeCooperativeMatrixKHR",
            "TypeUntypedPointerKHR",
            "ConstantTrue",
            "ConstantFalse",
            "Constant",
            "ConstantComposite",
            "ConstantSampler",
            "ConstantNull",
            "SpecConstantTrue",
            "SpecConstantFalse",
            "SpecConstant",
            "SpecConstantComposite",
            "SpecConstantOp",
            "ConstantCompositeReplicateEXT",
            "SpecConstantCompositeReplicateEXT",
        ],
    ),
];

const TERMINATORS: &[&str] = &[
    "Branch",
    "BranchConditional",
    "Switch",
    "Return",
    "ReturnValue",
    "Kill",
    "Unreachable",
    "TerminateInvocation",
    "IgnoreIntersectionKHR",
    "TerminateRayKHR",
    "EmitMeshTasksEXT",
];

static CLASSES: OnceLock<BTreeMap<u16, Lc>> = OnceLock::new();

fn build_classes() -> BTreeMap<u16, Lc> {
    let s = snap();
    let mut m = BTreeMap::new();
    let mut named: BTreeMap<&str, Lc> = BTreeMap::new();
    for (sec, names) in TABLE {
        for n in *names {
            named.insert(n, Lc::Section(*sec));
        }
    }
    for n in TERMINATORS {
        named.insert(n, Lc::Terminator);
    }
    named.insert("Function", Lc::Function);
    named.insert("FunctionEnd", Lc::FunctionEnd);
    named.insert("FunctionParameter", Lc::Parameter);
    named.insert("Label", Lc::Label);
    named.insert("Variable", Lc::Variable);
    named.insert("Undef", Lc::Undef);
    named.insert("Line", Lc::Line);
    named.insert("NoLine", Lc::Line);
    for g in &s.insts {
        let lc = if let Some(l) = named.get(g.name.as_str()) {
            *l
        } else if g.opcode < 1000
            && !g.name.starts_with("Type")
            && !g.name.starts_with("Constant")
            && !g.name.starts_with("SpecConstant")
            && g.name != "ExtInst"
        {
            Lc::Block
        } else {
            Lc::Other
        };
        m.insert(g.opcode, lc);
    }
    m
}

impl Lc {
    pub fn code(self) -> u32 {
        match self {
            Lc::Section(s) => s as u32,
            Lc::Function => 11,
            Lc::FunctionEnd => 12,
            Lc::Parameter => 13,
            Lc::Label => 14,
            Lc::Terminator => 15,
            Lc::Variable => 16,
            Lc::Undef => 17,
            Lc::Line => 18,
            Lc::Block => 19,
            Lc::Other => 20,
        }
    }
}

pub fn class_of(opcode: u16) -> Lc {
    *CLASSES.get_or_init(build_classes).get(&opcode).unwrap_or(&Lc::Other)
}

pub fn opcodes_of(pred: impl Fn(Lc) -> bool) -> Vec<u16> {
    CLASSES.get_or_init(build_classes).iter().filter(|(_, l)| pred(**l)).map(|(o, _)| *o).collect()
}

// ---------------------------------------------------------------------------
// reference loader automaton

#[derive(Clone, Copy, Debug, PartialEq, Eq)]
pub enum LErr {
    NestedFunction,
    UnclosedFunction,
    MismatchedFunctionEnd,
    DetachedFunctionParameter,
    DetachedBlock,
    NestedBlock,
    UnclosedBlock,
    MismatchedTerminator,
    DetachedInstruction,
}

impl LErr {
    pub fn name(self) -> &'static str {
        match self {
            LErr::NestedFunction => "NestedFunction",
            LErr::UnclosedFunction => "UnclosedFunction",
            LErr::MismatchedFunctionEnd => "MismatchedFunctionEnd",
            LErr::DetachedFunctionParameter => "DetachedFunctionParameter",
            LErr::DetachedBlock => "DetachedBlock",
            LErr::NestedBlock => "NestedBlock",
            LErr::UnclosedBlock => "UnclosedBlock",
            LErr::MismatchedTerminator => "MismatchedTerminator",
            LErr::DetachedInstruction => "DetachedInstruction",
        }
    }
}

#[derive(Clone, Debug, Default, PartialEq)]
pub struct MBlock {
    pub label: Option<MInst>,
    pub insts: Vec<MInst>,
}

#[derive(Clone, Debug, Default, PartialEq)]
pub struct MFunction {
    pub def: Option<MInst>,
    pub params: Vec<MInst>,
    pub blocks: Vec<MBlock>,
    pub end: Option<MInst>,
}

#[derive(Clone, Debug, Default, PartialEq)]
pub struct MModule {
    /// sections 0..=10; section 3 (memory model) holds at most the LAST OpMemoryModel seen
    pub sections: [Vec<MInst>; 11],
    pub functions: Vec<MFunction>,
    pub memory_models_seen: usize,
}

#[derive(Default)]
pub struct Automaton {
    pub module: MModule,
    func: Option<MFunction>,
    block: Option<MBlock>,
    /// an instruction whose placement the statement leaves open was seen
    /// (OpLine/OpNoLine inside a function but outside a block, or an `Other` opcode outside a block)
    pub unconstrained: bool,
    /// the instructions whose placement is unconstrained (not filed by the model)
    pub unconstrained_insts: Vec<MInst>,
}

impl Automaton {
    pub fn new() -> Automaton {
        Automaton::default()
    }
    /// 0 = no function, 1 = function open / no block, 2 = block open
    pub fn state(&self) -> u32 {
        match (&self.func, &self.block) {
            (None, _) => 0,
            (Some(_), None) => 1,
            (Some(_), Some(_)) => 2,
        }
    }
    pub fn step(&mut self, i: &MInst) -> Result<(), LErr> {
        let lc = class_of(i.opcode);
        match lc {
            Lc::Section(s) => {
                if s == SEC_MEMMODEL {
                    self.module.memory_models_seen += 1;
                    self.module.sections[s as usize].clear();
                }
                self.module.sections[s as usize].push(i.clone());
            }
            Lc::Function => {
                if self.func.is_some() {
                    return Err(LErr::NestedFunction);
                }
                self.func = Some(MFunction {
                    def: Some(i.clone()),
                    ..Default::default()
                });
            }
            Lc::FunctionEnd => {
                if self.func.is_none() {
                    return Err(LErr::MismatchedFunctionEnd);
                }
                if self.block.is_some() {
                    return Err(LErr::UnclosedBlock);
                }
                let mut f = self.func.take().unwrap();
                f.end = Some(i.clone());
                self.module.functions.push(f);
            }
            Lc::Parameter => match &mut self.func {
                None => return Err(LErr::DetachedFunctionParameter),
                Some(f) => f.params.push(i.clone()),
            },
            Lc::Label => {
                if self.func.is_none() {
                    return Err(LErr::DetachedBlock);
                }
                if self.block.is_some() {
                    return Err(LErr::NestedBlock);
                }
                self.block = Some(MBlock {
                    label: Some(i.clone()),
                    insts: vec![],
                });
            }
            Lc::Terminator => match self.block.take() {
                None => return Err(LErr::MismatchedTerminator),
                Some(mut b) => {
                    b.insts.push(i.clone());
                    self.func.as_mut().unwrap().blocks.push(b);
                }
            },
            Lc::Variable | Lc::Undef => {
                if self.func.is_none() {
                    self.module.sections[SEC_TYPES as usize].push(i.clone());
                } else {
                    match &mut self.block {
                        Some(b) => b.insts.push(i.clone()),
                        None => return Err(LErr::DetachedInstruction),
                    }
                }
            }
            Lc::Line => match &mut self.block {
                Some(b) => b.insts.push(i.clone()),
                None => {
                    if self.func.is_some() {
                        // documented limitation of the data representation: placement unconstrained,
                        // the model does not file it anywhere
                        self.unconstrained = true;
                        self.unconstrained_insts.push(i.clone());
                    } else {
                        self.module.sections[SEC_TYPES as usize].push(i.clone());
                    }
                }
            },
            Lc::Block => match &mut self.block {
                Some(b) => b.insts.push(i.clone()),
                None => return Err(LErr::DetachedInstruction),
            },
            Lc::Other => match &mut self.block {
                Some(b) => b.insts.push(i.clone()),
                None => {
                    // vendor / context-dependent opcode outside a block: the properties make no claim
                    self.unconstrained = true;
                    return Err(LErr::DetachedInstruction);
                }
            },
        }
        Ok(())
    }
    pub fn finish(&self) -> Result<(), LErr> {
        if self.block.is_some() {
            return Err(LErr::UnclosedBlock);
        }
        if self.func.is_some() {
            return Err(LErr::UnclosedFunction);
        }
        Ok(())
    }
}
