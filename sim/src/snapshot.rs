//! The frozen reference grammar (/verif/data/grammar_snapshot.json), embedded at
//! compile time.  It is DATA extracted once from the pinned tree; no oracle
//! reads rspirv's own tables at check time.

use serde::Deserialize;
use std::collections::BTreeMap;
use std::sync::OnceLock;

#[derive(Clone, Copy, Debug, PartialEq, Eq, PartialOrd, Ord)]
pub enum Quant {
    One,
    ZeroOrOne,
    ZeroOrMore,
}

#[derive(Clone, Copy, Debug, PartialEq, Eq)]
pub enum Cat {
    ValueEnum,
    Mask,
    IdResultType,
    IdResult,
    /// IdRef, IdScope, IdMemorySemantics
    Id,
    LitInt,
    LitFloat,
    LitString,
    LitCtx,
    LitExtInst,
    LitSpecOp,
    PairLitId,
    PairIdLit,
    PairIdId,
}

pub type KindId = u16;

#[derive(Debug)]
pub struct GInst {
    pub name: String,
    pub opcode: u16,
    pub operands: Vec<(KindId, Quant)>,
}

#[derive(Debug, Default)]
pub struct EnumInfo {
    /// number -> name
    pub values: BTreeMap<u32, String>,
    pub numbers: Vec<u32>,
    /// number -> parameter operand variants (kind ids), for parameterised enumerants
    pub params: BTreeMap<u32, Vec<KindId>>,
}

#[derive(Debug, Default)]
pub struct MaskInfo {
    /// single-bit flags in ascending order with names
    pub bits: Vec<(u32, String)>,
    pub all: u32,
    /// flag value -> parameter operand variants, ascending by flag value
    pub params: Vec<(u32, Vec<KindId>)>,
}

pub struct Snapshot {
    pub kinds: Vec<String>,
    pub cats: Vec<Cat>,
    pub kind_ids: BTreeMap<String, KindId>,
    pub insts: Vec<GInst>,
    pub by_opcode: BTreeMap<u16, usize>,
    pub by_name: BTreeMap<String, usize>,
    pub enums: BTreeMap<KindId, EnumInfo>,
    pub masks: BTreeMap<KindId, MaskInfo>,
    // well-known kind ids
    pub k_idref: KindId,
    pub k_lit32: KindId,
    pub k_lit64: KindId,
    pub k_string: KindId,
    pub k_extinst: KindId,
    pub k_specop: KindId,
}

#[derive(Deserialize)]
struct RawInst {
    name: String,
    opcode: u16,
    operands: Vec<(String, String)>,
}

#[derive(Deserialize)]
struct Raw {
    instructions: Vec<RawInst>,
    enums: BTreeMap<String, BTreeMap<String, u32>>,
    masks: BTreeMap<String, BTreeMap<String, u32>>,
    params: BTreeMap<String, BTreeMap<String, Vec<String>>>,
}

static SNAP: OnceLock<Snapshot> = OnceLock::new();

/// Names of real SPIR-V extensions (a dictionary for OpExtension strings, frozen from the pinned tree's tables)
pub fn extension_names() -> &'static Vec<String> {
    static N: std::sync::OnceLock<Vec<String>> = std::sync::OnceLock::new();
    N.get_or_init(|| serde_json::from_str(include_str!("../../data/extension_names.json")).expect("extension names parse"))
}

pub fn snap() -> &'static Snapshot {
    SNAP.get_or_init(build)
}

fn cat_of(name: &str, raw: &Raw) -> Cat {
    match name {
        "IdResultType" => Cat::IdResultType,
        "IdResult" => Cat::IdResult,
        "IdRef" | "IdScope" | "IdMemorySemantics" => Cat::Id,
        "LiteralInteger" => Cat::LitInt,
        "LiteralFloat" => Cat::LitFloat,
        "LiteralString" => Cat::LitString,
        "LiteralContextDependentNumber" => Cat::LitCtx,
        "LiteralExtInstInteger" => Cat::LitExtInst,
        "LiteralSpecConstantOpInteger" => Cat::LitSpecOp,
        "PairLiteralIntegerIdRef" => Cat::PairLitId,
        "PairIdRefLiteralInteger" => Cat::PairIdLit,
        "PairIdRefIdRef" => Cat::PairIdId,
        // delivered-operand variant names that are not grammar kinds
        "LiteralBit32" => Cat::LitInt,
        "LiteralBit64" => Cat::LitInt,
        n if raw.masks.contains_key(n) => Cat::Mask,
        n if raw.enums.contains_key(n) => Cat::ValueEnum,
        n => panic!("snapshot: unknown kind {}", n),
    }
}

fn build() -> Snapshot {
    let raw: Raw = serde_json::from_str(include_str!("../../data/grammar_snapshot.json")).expect("grammar snapshot parses");
    let mut kinds: Vec<String> = vec![];
    let mut kind_ids: BTreeMap<String, KindId> = BTreeMap::new();
    let mut intern = |n: &str, kinds: &mut Vec<String>| -> KindId {
        if let Some(i) = kind_ids.get(n) {
            return *i;
        }
        let i = kinds.len() as KindId;
        kinds.push(n.to_string());
        kind_ids.insert(n.to_string(), i);
        i
    };
    for n in ["IdRef", "LiteralBit32", "LiteralBit64", "LiteralString", "LiteralExtInstInteger", "LiteralSpecConstantOpInteger", "IdScope", "IdMemorySemantics"] {
        intern(n, &mut kinds);
    }
    let mut insts = vec![];
    for ri in &raw.instructions {
        let ops = ri
            .operands
            .iter()
            .map(|(k, q)| {
                let q = match q.as_str() {
                    "One" => Quant::One,
                    "ZeroOrOne" => Quant::ZeroOrOne,
                    "ZeroOrMore" => Quant::ZeroOrMore,
                    _ => panic!("quant"),
                };
                (intern(k, &mut kinds), q)
            })
            .collect();
        insts.push(GInst {
            name: ri.name.clone(),
            opcode: ri.opcode,
            operands: ops,
        });
    }
    for k in raw.enums.keys().chain(raw.masks.keys()) {
        if !["Op", "GLOp", "CLOp", "DebugPrintFOp"].contains(&k.as_str()) {
            intern(k, &mut kinds);
        }
    }
    let mut enums: BTreeMap<KindId, EnumInfo> = BTreeMap::new();
    for (k, vals) in &raw.enums {
        if ["Op", "GLOp", "CLOp", "DebugPrintFOp"].contains(&k.as_str()) {
            continue;
        }
        let id = intern(k, &mut kinds);
        let mut e = EnumInfo::default();
        for (n, v) in vals {
            e.values.insert(*v, n.clone());
        }
        e.numbers = e.values.keys().cloned().collect();
        if let Some(p) = raw.params.get(k) {
            for (ename, variants) in p {
                let num = *vals.get(ename).unwrap_or_else(|| panic!("param enumerant {} of {}", ename, k));
                e.params.insert(num, variants.iter().map(|v| intern(v, &mut kinds)).collect());
            }
        }
        enums.insert(id, e);
    }
    let mut masks: BTreeMap<KindId, MaskInfo> = BTreeMap::new();
    for (k, vals) in &raw.masks {
        let id = intern(k, &mut kinds);
        let mut m = MaskInfo::default();
        for (n, v) in vals {
            if *v != 0 {
                assert!(v.count_ones() == 1, "multi-bit mask constant {} in {}", n, k);
                m.bits.push((*v, n.clone()));
                m.all |= *v;
            }
        }
        m.bits.sort();
        if let Some(p) = raw.params.get(k) {
            for (fname, variants) in p {
                let bit = *vals.get(fname).unwrap_or_else(|| panic!("param flag {} of {}", fname, k));
                m.params.push((bit, variants.iter().map(|v| intern(v, &mut kinds)).collect()));
            }
            m.params.sort();
        }
        masks.insert(id, m);
    }
    drop(intern);
    let cats: Vec<Cat> = kinds.iter().map(|k| cat_of(k, &raw)).collect();
    let by_opcode = insts.iter().enumerate().map(|(i, g)| (g.opcode, i)).collect();
    let by_name = insts.iter().enumerate().map(|(i, g)| (g.name.clone(), i)).collect();
    let g = |n: &str| *kind_ids.get(n).unwrap();
    Snapshot {
        k_idref: g("IdRef"),
        k_lit32: g("LiteralBit32"),
        k_lit64: g("LiteralBit64"),
        k_string: g("LiteralString"),
        k_extinst: g("LiteralExtInstInteger"),
        k_specop: g("LiteralSpecConstantOpInteger"),
        kinds,
        cats,
        kind_ids,
        insts,
        by_opcode,
        by_name,
        enums,
        masks,
    }
}

impl Snapshot {
    pub fn kind(&self, name: &str) -> KindId {
        *self.kind_ids.get(name).unwrap_or_else(|| panic!("unknown kind {}", name))
    }
    pub fn kind_name(&self, k: KindId) -> &str {
        &self.kinds[k as usize]
    }
    pub fn cat(&self, k: KindId) -> Cat {
        self.cats[k as usize]
    }
    pub fn inst(&self, opcode: u16) -> Option<&GInst> {
        self.by_opcode.get(&opcode).map(|i| &self.insts[*i])
    }
    pub fn inst_named(&self, name: &str) -> &GInst {
        &self.insts[*self.by_name.get(name).unwrap_or_else(|| panic!("no opcode named {}", name))]
    }
    pub fn op(&self, name: &str) -> u16 {
        self.inst_named(name).opcode
    }
    /// is `w` a valid word for the value-enum or mask kind `k`?
    pub fn valid_word(&self, k: KindId, w: u32) -> bool {
        if let Some(e) = self.enums.get(&k) {
            e.values.contains_key(&w)
        } else if let Some(m) = self.masks.get(&k) {
            w & !m.all == 0
        } else {
            panic!("valid_word on non-enum kind {}", self.kind_name(k))
        }
    }
    /// parameter variants that follow the word `w` of kind `k` (enumerant or mask), in order
    pub fn params_of(&self, k: KindId, w: u32) -> Vec<KindId> {
        if let Some(e) = self.enums.get(&k) {
            e.params.get(&w).cloned().unwrap_or_default()
        } else if let Some(m) = self.masks.get(&k) {
            let mut v = vec![];
            for (bit, ps) in &m.params {
                if w & bit != 0 {
                    v.extend(ps.iter().cloned());
                }
            }
            v
        } else {
            vec![]
        }
    }
}
