//! Glue to the real code under test: scripted / recording consumers and the
//! classification of the real parser's error values.

use crate::acceptor::Class;
use crate::model::{to_model, MInst};
use rspirv::binary::{Consumer, DecodeError, ParseAction, ParseState};
use rspirv::dr;
use serde::{Deserialize, Serialize};
use std::fmt;

#[derive(Clone, Copy, Debug, PartialEq, Eq)]
pub enum RealClass {
    Grammar(Class),
    ConsumerStop,
    ConsumerError,
    /// State::Complete leaking out as an error value
    Complete,
}

pub struct RealErr {
    pub class: RealClass,
    pub index: Option<usize>,
    pub offset: Option<usize>,
    pub text: String,
}

fn decode_err_offset(e: &DecodeError) -> Option<usize> {
    match e {
        DecodeError::StreamExpected(o) | DecodeError::LimitReached(o) => Some(*o),
        DecodeError::DecodeStringFailed(o, _) => Some(*o),
        other => {
            let s = format!("{:?}", other);
            let a = s.find('(')? + 1;
            let b = s[a..].find(|c: char| !c.is_ascii_digit())? + a;
            s[a..b].parse().ok()
        }
    }
}

pub fn classify(st: &ParseState) -> RealErr {
    use RealClass::Grammar as G;
    let text = format!("{:?}", st);
    let (class, index, offset) = match st {
        ParseState::Complete => (RealClass::Complete, None, None),
        ParseState::ConsumerStopRequested => (RealClass::ConsumerStop, None, None),
        ParseState::ConsumerError(_) => (RealClass::ConsumerError, None, None),
        ParseState::HeaderIncomplete(_) => (G(Class::HeaderIncomplete), None, None),
        ParseState::HeaderIncorrect => (G(Class::HeaderIncorrect), None, None),
        ParseState::EndiannessUnsupported => (G(Class::Endianness), None, None),
        ParseState::WordCountZero(o, i) => (G(Class::ZeroWordCount), Some(*i), Some(*o)),
        ParseState::OpcodeUnknown(o, i, _) => (G(Class::UnknownOpcode), Some(*i), Some(*o)),
        ParseState::OperandExpected(o, i) => (G(Class::Missing), Some(*i), Some(*o)),
        ParseState::OperandExceeded(o, i) => (G(Class::Surplus), Some(*i), Some(*o)),
        ParseState::OperandError(e) => match e {
            DecodeError::LimitReached(_) | DecodeError::StreamExpected(_) => (G(Class::Missing), None, decode_err_offset(e)),
            _ => (G(Class::Undecodable), None, decode_err_offset(e)),
        },
        ParseState::TypeUnsupported(o, i) => (G(Class::Undecodable), Some(*i), Some(*o)),
        ParseState::SpecConstantOpIntegerIncorrect(o, i) => (G(Class::Undecodable), Some(*i), Some(*o)),
    };
    RealErr { class, index, offset, text }
}

// ---------------------------------------------------------------------------
// consumers

#[derive(Clone, Copy, Debug, PartialEq, Eq, Serialize, Deserialize)]
pub enum Act {
    Continue,
    Stop,
    /// error carrying this tag
    Error(u32),
    /// error whose concrete type is the parser's own ParseState (variant chosen by the number)
    ErrorState(u8),
    /// error whose concrete type is the loader's dr::Error (variant chosen by the number)
    ErrorLoader(u8),
    /// error of a standard-library type (std::io::Error of several kinds incl. Interrupted / WouldBlock,
    /// fmt::Error, a Utf8Error, a boxed &str / String message); compared by its rendering and type
    ErrorStd(u8),
}

pub fn state_for(n: u8) -> ParseState {
    match n % 5 {
        0 => ParseState::ConsumerStopRequested,
        1 => ParseState::Complete,
        2 => ParseState::HeaderIncorrect,
        3 => ParseState::WordCountZero(4, 2),
        _ => ParseState::EndiannessUnsupported,
    }
}

pub fn loader_error_for(n: u8) -> dr::Error {
    match n % 3 {
        0 => dr::Error::NestedFunction,
        1 => dr::Error::UnclosedBlock,
        _ => dr::Error::DetachedInstruction(None),
    }
}

pub const STD_ERRORS: u8 = 16;

pub fn std_error_for(n: u8) -> Box<dyn std::error::Error + Send + Sync> {
    use std::io::{Error as IoError, ErrorKind as K};
    match n % STD_ERRORS {
        0 => Box::new(IoError::from(K::Interrupted)),
        1 => Box::new(IoError::from(K::WouldBlock)),
        2 => Box::new(IoError::from(K::UnexpectedEof)),
        3 => Box::new(IoError::new(K::Other, "scripted io error")),
        4 => Box::new(IoError::from(K::TimedOut)),
        5 => Box::new(IoError::from(K::BrokenPipe)),
        6 => Box::new(IoError::from_raw_os_error(4)), // EINTR
        7 => Box::new(std::fmt::Error),
        8 => Box::new(std::str::from_utf8(&[0xffu8, 0xfe][..]).unwrap_err()),
        9 => "scripted message".into(),
        10 => String::new().into(),
        11 => Box::new("x".parse::<u32>().unwrap_err()),
        // the library's own decoder errors, handed back by a consumer
        12 => Box::new(DecodeError::StreamExpected(0)),
        13 => Box::new(DecodeError::LimitReached(12)),
        14 => Box::new(DecodeError::DecodeStringFailed(4, "scripted".into())),
        _ => Box::new(DecodeError::ScopeUnknown(8, 0xFFFF)),
    }
}

/// (type name, rendering) of a standard-library error value as the script intended it
pub fn std_error_identity(e: &(dyn std::error::Error + 'static)) -> (String, String) {
    let ty = if let Some(io) = e.downcast_ref::<std::io::Error>() {
        format!("io::Error kind={:?} os={:?}", io.kind(), io.raw_os_error())
    } else if e.is::<std::fmt::Error>() {
        "fmt::Error".to_string()
    } else if e.is::<std::str::Utf8Error>() {
        "Utf8Error".to_string()
    } else if e.is::<std::num::ParseIntError>() {
        "ParseIntError".to_string()
    } else if e.is::<DecodeError>() {
        "DecodeError".to_string()
    } else {
        "other".to_string()
    };
    (ty, format!("{} / {:?}", e, e))
}

#[derive(Debug)]
pub struct TagError(pub u32);
impl fmt::Display for TagError {
    fn fmt(&self, f: &mut fmt::Formatter) -> fmt::Result {
        write!(f, "scripted consumer error tag {}", self.0)
    }
}
impl std::error::Error for TagError {}

#[derive(Clone, Debug, PartialEq)]
pub enum Event {
    Init,
    Header(u32, u32), // version word, bound
    Inst(MInst),
    Finalize,
}

/// Logs every callback and answers from a script indexed by callback position
/// (position 0 = initialize, 1 = header, 2.. = instructions, then finalize);
/// positions beyond the script answer Continue.
pub struct Recorder {
    pub log: Vec<Event>,
    pub script: Vec<Act>,
    /// answers asked for after the first non-Continue answer (must stay 0)
    pub asked_after_deviation: usize,
    deviated: bool,
    /// cap on callbacks: a parser that calls back more often than there are words is not terminating sanely
    pub max_callbacks: usize,
    pub overflowed: bool,
}

impl Recorder {
    pub fn new(script: Vec<Act>, max_callbacks: usize) -> Recorder {
        Recorder {
            log: vec![],
            script,
            asked_after_deviation: 0,
            deviated: false,
            max_callbacks,
            overflowed: false,
        }
    }
    pub fn passive(max_callbacks: usize) -> Recorder {
        Recorder::new(vec![], max_callbacks)
    }
    fn answer(&mut self) -> ParseAction {
        if self.deviated {
            self.asked_after_deviation += 1;
        }
        let pos = self.log.len() - 1;
        if self.log.len() > self.max_callbacks {
            self.overflowed = true;
            self.deviated = true;
            return ParseAction::Stop;
        }
        match self.script.get(pos).cloned().unwrap_or(Act::Continue) {
            Act::Continue => ParseAction::Continue,
            Act::Stop => {
                self.deviated = true;
                ParseAction::Stop
            }
            Act::Error(t) => {
                self.deviated = true;
                ParseAction::Error(Box::new(TagError(t)))
            }
            Act::ErrorState(n) => {
                self.deviated = true;
                ParseAction::Error(Box::new(state_for(n)))
            }
            Act::ErrorLoader(n) => {
                self.deviated = true;
                ParseAction::Error(Box::new(loader_error_for(n)))
            }
            Act::ErrorStd(n) => {
                self.deviated = true;
                ParseAction::Error(std_error_for(n))
            }
        }
    }
    pub fn insts(&self) -> Vec<&MInst> {
        self.log
            .iter()
            .filter_map(|e| match e {
                Event::Inst(i) => Some(i),
                _ => None,
            })
            .collect()
    }
}

impl Consumer for Recorder {
    fn initialize(&mut self) -> ParseAction {
        self.log.push(Event::Init);
        self.answer()
    }
    fn finalize(&mut self) -> ParseAction {
        self.log.push(Event::Finalize);
        self.answer()
    }
    fn consume_header(&mut self, h: dr::ModuleHeader) -> ParseAction {
        self.log.push(Event::Header(h.version, h.bound));
        self.answer()
    }
    fn consume_instruction(&mut self, inst: dr::Instruction) -> ParseAction {
        self.log.push(Event::Inst(to_model(&inst)));
        self.answer()
    }
}
