//! Glue between the simulator and dr::Builder: the generated call table
//! (build.rs), the argument source that distributes an intended grammar-order
//! operand list over a method's parameters, and the method <-> opcode binding.

use crate::kinds::{make_operand, FromWord};
use crate::model::MOp;
use crate::producer::Group;
use crate::snapshot::{snap, Cat, Quant};
use rspirv::dr::{self, Builder, InsertPoint};
use rspirv::spirv;
use std::collections::{BTreeMap, VecDeque};
use std::sync::OnceLock;

pub struct MethodInfo {
    pub name: &'static str,
    pub file: &'static str,
    pub params: &'static [(&'static str, &'static str)],
    pub ret: &'static str,
    pub callable: bool,
}

#[derive(Clone, Debug, PartialEq)]
pub enum Ret {
    ResId(Result<u32, &'static str>),
    ResUnit(Result<(), &'static str>),
    Id(u32),
    Unit,
    NotCallable,
}

impl Ret {
    pub fn is_err(&self) -> bool {
        matches!(self, Ret::ResId(Err(_)) | Ret::ResUnit(Err(_)))
    }
    pub fn err(&self) -> Option<&'static str> {
        match self {
            Ret::ResId(Err(e)) | Ret::ResUnit(Err(e)) => Some(e),
            _ => None,
        }
    }
    pub fn id(&self) -> Option<u32> {
        match self {
            Ret::ResId(Ok(i)) | Ret::Id(i) => Some(*i),
            _ => None,
        }
    }
}

pub fn err_name(e: &dr::Error) -> &'static str {
    match e {
        dr::Error::NestedFunction => "NestedFunction",
        dr::Error::UnclosedFunction => "UnclosedFunction",
        dr::Error::MismatchedFunctionEnd => "MismatchedFunctionEnd",
        dr::Error::DetachedFunctionParameter => "DetachedFunctionParameter",
        dr::Error::DetachedBlock => "DetachedBlock",
        dr::Error::NestedBlock => "NestedBlock",
        dr::Error::UnclosedBlock => "UnclosedBlock",
        dr::Error::MismatchedTerminator => "MismatchedTerminator",
        dr::Error::DetachedInstruction(_) => "DetachedInstruction",
        dr::Error::EmptyInstructionList => "EmptyInstructionList",
        dr::Error::FunctionNotFound => "FunctionNotFound",
        dr::Error::BlockNotFound => "BlockNotFound",
        _ => "other",
    }
}

#[derive(Clone, Copy, Debug, PartialEq, serde::Serialize, serde::Deserialize)]
pub enum Ip {
    End,
    Begin,
    FromEnd(usize),
    FromBegin(usize),
}

impl Ip {
    pub fn to_real(self) -> InsertPoint {
        match self {
            Ip::End => InsertPoint::End,
            Ip::Begin => InsertPoint::Begin,
            Ip::FromEnd(k) => InsertPoint::FromEnd(k),
            Ip::FromBegin(k) => InsertPoint::FromBegin(k),
        }
    }
    /// index at which the instruction lands in a block of `len` instructions
    pub fn index(self, len: usize) -> Option<usize> {
        match self {
            Ip::End => Some(len),
            Ip::Begin => Some(0),
            Ip::FromEnd(k) if k <= len => Some(len - k),
            Ip::FromBegin(k) if k <= len => Some(k),
            _ => None,
        }
    }
}

pub fn mop_to_operand(o: &MOp) -> Option<dr::Operand> {
    match o {
        MOp::W(k, v) => make_operand(snap().kind_name(*k), *v),
        MOp::L64(v) => Some(dr::Operand::LiteralBit64(*v)),
        MOp::S(s) => Some(dr::Operand::LiteralString(s.clone())),
    }
}

/// Serves a method's parameters, in declaration order, from the intended operand groups.
pub struct ArgSrc {
    pub rtype: Option<u32>,
    /// explicit result id to pass for a `result_id: Option<Word>` parameter
    pub rid_explicit: Option<u32>,
    pub groups: VecDeque<Group>,
    /// parameters of enumerants / mask bits consumed so far and not yet handed over
    pub pending: Vec<MOp>,
    pub ip: Ip,
    pub mismatch: Option<String>,
}

impl ArgSrc {
    pub fn new(rtype: Option<u32>, rid_explicit: Option<u32>, groups: Vec<Group>, ip: Ip) -> ArgSrc {
        ArgSrc {
            rtype,
            rid_explicit,
            groups: groups.into(),
            pending: vec![],
            ip,
            mismatch: None,
        }
    }
    fn bad(&mut self, why: String) {
        if self.mismatch.is_none() {
            self.mismatch = Some(why);
        }
    }
    pub fn finished(&mut self) {
        if !self.groups.is_empty() {
            let n = self.groups.len();
            self.bad(format!("{} operand group(s) left over", n));
        }
        if !self.pending.is_empty() {
            self.bad("enumerant parameters were never handed over".into());
        }
    }
    fn next(&mut self, name: &str) -> Option<Group> {
        let g = self.groups.pop_front();
        if g.is_none() {
            self.bad(format!("no operand group left for parameter {}", name));
        }
        g
    }
    fn single_word(&mut self, item: &[MOp], name: &str) -> u32 {
        match item {
            [MOp::W(_, v)] => *v,
            _ => {
                self.bad(format!("parameter {} expects one word, group item is {:?}", name, item));
                0
            }
        }
    }
    pub fn insert_point(&mut self) -> InsertPoint {
        self.ip.to_real()
    }
    pub fn word(&mut self, name: &str) -> u32 {
        if name == "result_type" {
            if let Some(t) = self.rtype.take() {
                return t;
            }
        }
        let Some(g) = self.next(name) else { return 0 };
        if g.quant != Quant::One || g.items.len() != 1 {
            self.bad(format!("parameter {} is a plain word but the operand is {:?}", name, g.quant));
            return 0;
        }
        let c = snap().cat(g.kind);
        if !matches!(c, Cat::Id | Cat::LitInt | Cat::LitFloat | Cat::LitExtInst | Cat::LitCtx) {
            self.bad(format!("parameter {} is a plain word but the operand kind is {}", name, snap().kind_name(g.kind)));
            return 0;
        }
        self.single_word(&g.items[0], name)
    }
    pub fn u32(&mut self, name: &str) -> u32 {
        self.word(name)
    }
    pub fn u64(&mut self, name: &str) -> u64 {
        let Some(g) = self.next(name) else { return 0 };
        match g.items.first().map(|v| v.as_slice()) {
            Some([MOp::L64(v)]) => *v,
            other => {
                self.bad(format!("parameter {} expects a 64-bit literal, got {:?}", name, other));
                0
            }
        }
    }
    pub fn opt_word(&mut self, name: &str) -> Option<u32> {
        if name == "result_id" {
            return self.rid_explicit;
        }
        let g = self.next(name)?;
        if g.quant != Quant::ZeroOrOne {
            self.bad(format!("parameter {} is optional but the operand is {:?}", name, g.quant));
            return None;
        }
        g.items.first().map(|it| self.single_word(it, name))
    }
    fn take_enum<T: FromWord>(&mut self, item: &[MOp], name: &str) -> Option<T> {
        match item.first() {
            Some(MOp::W(k, v)) if snap().kind_name(*k) == T::KIND => {
                self.pending.extend(item[1..].iter().cloned());
                let r = T::from_word(*v);
                if r.is_none() {
                    self.bad(format!("number {} is not a {} value", v, T::KIND));
                }
                r
            }
            other => {
                self.bad(format!("parameter {} expects a {} value, got {:?}", name, T::KIND, other));
                None
            }
        }
    }
    pub fn en<T: FromWord>(&mut self, name: &str) -> T {
        let g = self.next(name);
        let r = match g {
            Some(g) if g.quant == Quant::One && g.items.len() == 1 => self.take_enum::<T>(&g.items[0], name),
            Some(g) => {
                self.bad(format!("parameter {} is a required {} but the operand is {:?}", name, T::KIND, g.quant));
                None
            }
            None => None,
        };
        match r {
            Some(v) => v,
            None => {
                // any valid value keeps the call executable; the run is marked as mismatched and not judged
                let s = snap();
                let k = s.kind_ids.get(T::KIND).cloned();
                let w = k.and_then(|k| s.enums.get(&k).map(|e| e.numbers[0])).unwrap_or(0);
                T::from_word(w).expect("some valid value")
            }
        }
    }
    pub fn opt_en<T: FromWord>(&mut self, name: &str) -> Option<T> {
        let g = self.next(name)?;
        if g.quant != Quant::ZeroOrOne {
            self.bad(format!("parameter {} is optional but the operand is {:?}", name, g.quant));
            return None;
        }
        match g.items.first() {
            None => None,
            Some(it) => self.take_enum::<T>(it, name),
        }
    }
    pub fn operands(&mut self, name: &str) -> Vec<dr::Operand> {
        if name == "additional_params" {
            let p: Vec<MOp> = std::mem::take(&mut self.pending);
            return p.iter().filter_map(mop_to_operand).collect();
        }
        let Some(g) = self.next(name) else { return vec![] };
        g.items.iter().flatten().filter_map(mop_to_operand).collect()
    }
    pub fn words(&mut self, name: &str) -> Vec<u32> {
        if name == "params" {
            // hand-written execution_mode / execution_mode_id: the enumerant's parameters as raw words
            let p: Vec<MOp> = std::mem::take(&mut self.pending);
            return p
                .iter()
                .map(|o| match o {
                    MOp::W(_, v) => *v,
                    _ => {
                        0
                    }
                })
                .collect();
        }
        let Some(g) = self.next(name) else { return vec![] };
        if g.quant != Quant::ZeroOrMore {
            self.bad(format!("parameter {} is a list but the operand is {:?}", name, g.quant));
        }
        let mut v = vec![];
        for it in &g.items {
            v.push(self.single_word(it, name));
        }
        v
    }
    pub fn string(&mut self, name: &str) -> String {
        let Some(g) = self.next(name) else { return String::new() };
        match g.items.first().map(|v| v.as_slice()) {
            Some([MOp::S(s)]) if g.quant == Quant::One => s.clone(),
            other => {
                self.bad(format!("parameter {} expects a string, got {:?}", name, other));
                String::new()
            }
        }
    }
    pub fn opt_string(&mut self, name: &str) -> Option<String> {
        let g = self.next(name)?;
        if g.quant != Quant::ZeroOrOne {
            self.bad(format!("parameter {} is an optional string but the operand is {:?}", name, g.quant));
        }
        match g.items.first().map(|v| v.as_slice()) {
            None => None,
            Some([MOp::S(s)]) => Some(s.clone()),
            other => {
                self.bad(format!("parameter {} expects a string, got {:?}", name, other));
                None
            }
        }
    }
    pub fn pairs_lit_id(&mut self, name: &str) -> Vec<(dr::Operand, u32)> {
        let Some(g) = self.next(name) else { return vec![] };
        let mut v = vec![];
        for it in &g.items {
            match it.as_slice() {
                [lit, MOp::W(_, id)] => {
                    if let Some(o) = mop_to_operand(lit) {
                        v.push((o, *id));
                    }
                }
                other => self.bad(format!("parameter {} expects (literal, id) pairs, got {:?}", name, other)),
            }
        }
        v
    }
    pub fn pairs_id_id(&mut self, name: &str) -> Vec<(u32, u32)> {
        let Some(g) = self.next(name) else { return vec![] };
        let mut v = vec![];
        for it in &g.items {
            match it.as_slice() {
                [MOp::W(_, a), MOp::W(_, b)] => v.push((*a, *b)),
                other => self.bad(format!("parameter {} expects (id, id) pairs, got {:?}", name, other)),
            }
        }
        v
    }
    pub fn pairs_id_lit(&mut self, name: &str) -> Vec<(u32, u32)> {
        self.pairs_id_id(name)
    }
}

include!(concat!(env!("OUT_DIR"), "/glue.rs"));

// ---------------------------------------------------------------------------
// method <-> opcode binding

#[derive(Clone, Copy, Debug, PartialEq, Eq)]
pub enum MClass {
    /// appends to / inserts into the selected block
    Block,
    /// like Block and closes the block
    Terminator,
    /// type declaration with implicit-id deduplication (explicit id via the `result_id` parameter)
    Type,
    /// appends to a module-level section
    ModuleLevel,
    /// OpVariable / OpUndef / OpLine / OpNoLine: block if one is selected, else module level
    ContextDependent,
}

#[derive(Clone, Debug)]
pub struct Binding {
    pub midx: usize,
    pub name: &'static str,
    pub opcode: u16,
    pub class: MClass,
    pub insert: bool,
    pub has_result_id_param: bool,
}

/// heck's to_snake_case, as used by rspirv's generator for method names
pub fn snake(name: &str) -> String {
    #[derive(PartialEq, Clone, Copy)]
    enum Mode {
        Boundary,
        Lower,
        Upper,
    }
    let chars: Vec<char> = name.chars().collect();
    let mut out = String::new();
    let mut mode = Mode::Boundary;
    let mut word_start = 0usize;
    let mut words: Vec<String> = vec![];
    let mut i = 0;
    while i < chars.len() {
        let c = chars[i];
        if let Some(&next) = chars.get(i + 1) {
            let next_mode = if c.is_lowercase() {
                Mode::Lower
            } else if c.is_uppercase() {
                Mode::Upper
            } else {
                mode
            };
            if next == '_' || (next_mode == Mode::Lower && next.is_uppercase()) {
                words.push(chars[word_start..=i].iter().collect());
                word_start = i + 1;
                mode = Mode::Boundary;
            } else if mode == Mode::Upper && c.is_uppercase() && next.is_lowercase() {
                if word_start < i {
                    words.push(chars[word_start..i].iter().collect());
                }
                word_start = i;
                mode = Mode::Boundary;
            } else {
                mode = next_mode;
            }
        } else {
            words.push(chars[word_start..].iter().collect());
        }
        i += 1;
    }
    for (k, w) in words.iter().filter(|w| !w.is_empty() && w.as_str() != "_").enumerate() {
        if k > 0 {
            out.push('_');
        }
        out.push_str(&w.trim_matches('_').to_lowercase());
    }
    out
}

const HAND_WRITTEN: &[(&str, &str, MClass)] = &[
    ("capability", "Capability", MClass::ModuleLevel),
    ("extension", "Extension", MClass::ModuleLevel),
    ("ext_inst_import", "ExtInstImport", MClass::ModuleLevel),
    ("memory_model", "MemoryModel", MClass::ModuleLevel),
    ("entry_point", "EntryPoint", MClass::ModuleLevel),
    ("execution_mode", "ExecutionMode", MClass::ModuleLevel),
    ("execution_mode_id", "ExecutionModeId", MClass::ModuleLevel),
    ("ext_inst", "ExtInst", MClass::Block),
    ("line", "Line", MClass::ContextDependent),
    ("no_line", "NoLine", MClass::ContextDependent),
    ("decoration_group", "DecorationGroup", MClass::ModuleLevel),
    ("string", "String", MClass::ModuleLevel),
    ("type_forward_pointer", "TypeForwardPointer", MClass::ModuleLevel),
    ("type_pointer", "TypePointer", MClass::Type),
    ("type_opaque", "TypeOpaque", MClass::ModuleLevel),
    ("constant_bit32", "Constant", MClass::ModuleLevel),
    ("constant_bit64", "Constant", MClass::ModuleLevel),
    ("spec_constant_bit32", "SpecConstant", MClass::ModuleLevel),
    ("spec_constant_bit64", "SpecConstant", MClass::ModuleLevel),
    ("variable", "Variable", MClass::ContextDependent),
    ("undef", "Undef", MClass::ContextDependent),
];

const NAME_EXCEPTIONS: &[(&str, &str)] = &[("ret", "Return"), ("ret_value", "ReturnValue")];

pub struct Bindings {
    pub all: Vec<Binding>,
    pub by_name: BTreeMap<&'static str, usize>,
    /// callable methods that could not be bound to an opcode (excluded, counted in the evidence)
    pub unbound: Vec<&'static str>,
}

static BINDINGS: OnceLock<Bindings> = OnceLock::new();

pub fn bindings() -> &'static Bindings {
    BINDINGS.get_or_init(|| {
        let s = snap();
        let mut snake_to_op: BTreeMap<String, u16> = BTreeMap::new();
        for g in &s.insts {
            snake_to_op.insert(snake(&g.name), g.opcode);
        }
        for (m, op) in NAME_EXCEPTIONS {
            snake_to_op.insert(m.to_string(), s.op(op));
        }
        let mut all = vec![];
        let mut unbound = vec![];
        for (midx, m) in METHODS.iter().enumerate() {
            if !m.callable {
                continue;
            }
            let has_rid = m.params.iter().any(|(n, _)| *n == "result_id");
            let has_ip = m.params.iter().any(|(_, t)| *t == "InsertPoint");
            let (opcode, class) = if m.file == "mod.rs" {
                match HAND_WRITTEN.iter().find(|(n, _, _)| *n == m.name) {
                    Some((_, op, c)) => (s.op(op), *c),
                    None => continue, // structural / selection / utility methods are driven explicitly
                }
            } else {
                let base = if has_ip { m.name.strip_prefix("insert_").unwrap_or(m.name) } else { m.name };
                let class = match m.file {
                    "autogen_norm_insts.rs" => MClass::Block,
                    "autogen_terminator.rs" => MClass::Terminator,
                    "autogen_type.rs" => MClass::Type,
                    _ => MClass::ModuleLevel,
                };
                let cand = if class == MClass::Type && has_rid { base.strip_suffix("_id").unwrap_or(base) } else { base };
                match snake_to_op.get(cand) {
                    Some(op) => (*op, class),
                    None => {
                        unbound.push(m.name);
                        continue;
                    }
                }
            };
            all.push(Binding {
                midx,
                name: m.name,
                opcode,
                class,
                insert: has_ip,
                has_result_id_param: has_rid,
            });
        }
        let by_name = all.iter().enumerate().map(|(i, b)| (b.name, i)).collect();
        Bindings { all, by_name, unbound }
    })
}
