//! Shared vocabulary: property trait, violation identity, coverage counters,
//! panic capture.  Executing a trace is a pure function of the trace and the
//! code under test; nothing here reads clocks or the PRNG.

use crate::rng::Rng;
use serde::{de::DeserializeOwned, Deserialize, Serialize};
use std::cell::RefCell;
use std::collections::{BTreeMap, BTreeSet};
use std::panic::{self, AssertUnwindSafe};

#[derive(Clone, Copy, Debug, PartialEq, Eq)]
pub enum Tier {
    Quick,
    Thorough,
}

impl Tier {
    pub fn name(self) -> &'static str {
        match self {
            Tier::Quick => "quick",
            Tier::Thorough => "thorough",
        }
    }
    pub fn parse(s: &str) -> Option<Tier> {
        match s {
            "quick" => Some(Tier::Quick),
            "thorough" => Some(Tier::Thorough),
            _ => None,
        }
    }
}

/// A violation is identified by (clause, locus); `step` and `detail` are for
/// the reader and for exact-replay comparison.
#[derive(Clone, Debug, Serialize, Deserialize, PartialEq, Eq)]
pub struct Violation {
    pub clause: String,
    pub locus: String,
    pub step: usize,
    pub detail: String,
}

impl Violation {
    pub fn new(clause: &str, locus: impl Into<String>, step: usize, detail: impl Into<String>) -> Violation {
        let mut d: String = detail.into();
        if d.len() > 600 {
            let mut cut = 600;
            while !d.is_char_boundary(cut) {
                cut -= 1;
            }
            d.truncate(cut);
            d.push_str("…");
        }
        Violation {
            clause: clause.to_string(),
            locus: locus.into(),
            step,
            detail: d,
        }
    }
    pub fn key(&self) -> (String, String) {
        (self.clause.clone(), self.locus.clone())
    }
}

/// Result of executing one trace.
pub struct RunOut {
    pub violation: Option<Violation>,
    /// hash of the abstract trace: sequence of (op kind, outcome class) with fault kinds inlined
    pub abs_hash: u64,
    /// non-trivial by the property's stated rule
    pub nontrivial: bool,
}

/// Coverage counters, all measured.
#[derive(Default)]
pub struct Cov {
    pub counters: BTreeMap<&'static str, u64>,
    pub dyn_counters: BTreeMap<String, u64>,
    /// distinct small-state triples (property specific measure)
    pub triples: BTreeSet<(u32, u32, u32)>,
    /// opcodes / methods / enumerants exercised (by number)
    pub items: BTreeSet<u32>,
}

impl Cov {
    #[inline]
    pub fn hit(&mut self, k: &'static str) {
        *self.counters.entry(k).or_insert(0) += 1;
    }
    #[inline]
    pub fn add(&mut self, k: &'static str, n: u64) {
        *self.counters.entry(k).or_insert(0) += n;
    }
    pub fn hit_dyn(&mut self, k: String) {
        *self.dyn_counters.entry(k).or_insert(0) += 1;
    }
    #[inline]
    pub fn triple(&mut self, a: u32, b: u32, c: u32) {
        self.triples.insert((a, b, c));
    }
    #[inline]
    pub fn item(&mut self, i: u32) {
        self.items.insert(i);
    }
}

pub struct Meta {
    pub level: &'static str,
    pub rule: &'static str,
    /// lanes / hot spots added on top of the base rule (see DESIGN 12.5)
    pub lanes: &'static str,
    pub triple_measure: &'static str,
    pub item_measure: &'static str,
    pub assumptions: &'static [&'static str],
    pub real_components: &'static [&'static str],
    pub simulated_components: &'static [&'static str],
    pub fault_kinds: &'static [&'static str],
}

pub trait Property {
    type Trace: Serialize + DeserializeOwned + Clone;
    const ID: &'static str;
    /// number of seeded runs for a tier
    fn runs(tier: Tier) -> u64;
    /// draw a concrete trace (workload + faults + scripts + swarm config) from the PRNG
    fn generate(rng: &mut Rng, tier: Tier) -> Self::Trace;
    /// execute verbatim; pure function of the trace and the code under test
    fn execute(t: &Self::Trace, cov: &mut Cov) -> RunOut;
    /// one round of simpler candidate traces (delta debugging step)
    fn shrink(t: &Self::Trace) -> Vec<Self::Trace>;
    fn meta() -> Meta;
    /// whether a process death (signal / hang) during a run is a violation of THIS property
    fn crash_is_violation() -> bool {
        false
    }
}

// ---------------------------------------------------------------------------
// panic capture

#[derive(Clone, Debug)]
pub struct PanicInfo {
    pub file: String,
    pub line: u32,
    pub msg: String,
}

impl PanicInfo {
    /// stable locus: file + message with digit runs collapsed (line number excluded)
    pub fn locus(&self) -> String {
        let mut kind = String::new();
        let mut in_digits = false;
        for c in self.msg.chars() {
            if c.is_ascii_digit() {
                if !in_digits {
                    kind.push('#');
                }
                in_digits = true;
            } else {
                in_digits = false;
                kind.push(if c == '\n' { ' ' } else { c });
            }
            if kind.len() >= 70 {
                break;
            }
        }
        // "/rustc/<hash>/library/alloc/..." -> "library/alloc/..." (no toolchain hash in the identity)
        let f = match self.file.find("/library/") {
            Some(i) if self.file.starts_with("/rustc/") => &self.file[i + 1..],
            _ => match self.file.strip_prefix("/repo/") {
                Some(rest) => rest,
                // a scratch copy of the repository (scripts/par_eval.py): same identity as in /repo
                None => match self.file.find("/repo/") {
                    Some(i) => &self.file[i + 6..],
                    None => &self.file,
                },
            },
        };
        format!("file={} kind={}", f, kind)
    }
    pub fn detail(&self) -> String {
        format!("panicked at {}:{}: {}", self.file, self.line, self.msg)
    }
    pub fn in_repo(&self) -> bool {
        self.file.starts_with("/repo/") || self.file.contains("rspirv/") || self.file.contains("spirv/")
    }
}

thread_local! {
    static LAST_PANIC: RefCell<Option<PanicInfo>> = const { RefCell::new(None) };
}

pub fn install_panic_hook() {
    panic::set_hook(Box::new(|info| {
        let (file, line) = info
            .location()
            .map(|l| (l.file().to_string(), l.line()))
            .unwrap_or_else(|| ("?".to_string(), 0));
        let msg = if let Some(s) = info.payload().downcast_ref::<&str>() {
            s.to_string()
        } else if let Some(s) = info.payload().downcast_ref::<String>() {
            s.clone()
        } else {
            "<non-string panic payload>".to_string()
        };
        let pi = PanicInfo { file, line, msg };
        if !pi.in_repo() && !pi.msg.starts_with("simulated fault") {
            eprintln!("HARNESS-PANIC: {}", pi.detail());
            if std::env::var("VERIF_BACKTRACE").is_ok() {
                eprintln!("{}", std::backtrace::Backtrace::force_capture());
            }
        }
        LAST_PANIC.with(|p| *p.borrow_mut() = Some(pi));
    }));
}

/// Run `f`, converting an unwinding panic into `Err(PanicInfo)`.
pub fn guarded<T>(f: impl FnOnce() -> T) -> Result<T, PanicInfo> {
    LAST_PANIC.with(|p| *p.borrow_mut() = None);
    match panic::catch_unwind(AssertUnwindSafe(f)) {
        Ok(v) => Ok(v),
        Err(_) => {
            let pi = LAST_PANIC.with(|p| p.borrow_mut().take()).unwrap_or(PanicInfo {
                file: "?".into(),
                line: 0,
                msg: "panic (no info captured)".into(),
            });
            // a panic raised by the harness's own code (a callback, an element type's `==`) while the code under test
            // was on the stack is a harness defect, never a finding: stop with the harness-error status
            if pi.file.starts_with("src/") && !pi.msg.starts_with("simulated fault") {
                eprintln!("HARNESS-ERROR: the harness itself panicked inside a guarded call: {}", pi.detail());
                std::process::exit(3);
            }
            Err(pi)
        }
    }
}

/// incremental abstract-trace hasher
pub struct AbsHash(pub u64);
impl AbsHash {
    pub fn new() -> AbsHash {
        AbsHash(0xcbf2_9ce4_8422_2325)
    }
    #[inline]
    pub fn push(&mut self, a: u32, b: u32) {
        let mut h = self.0;
        for x in [a, b] {
            h ^= x as u64;
            h = h.wrapping_mul(0x0000_0100_0000_01B3);
            h ^= h >> 29;
        }
        self.0 = h;
    }
    pub fn push_str(&mut self, s: &str) {
        self.0 = crate::rng::fnv_bytes(self.0, s.as_bytes());
    }
}

/// Indices to try removing one at a time, last first; for very long lists (scale lanes) only a
/// sample, so that the shrinker never materialises a quadratic number of large candidates.
pub fn shrink_indices(n: usize) -> Vec<usize> {
    if n <= 300 {
        (0..n).rev().collect()
    } else {
        let step = n / 64;
        (0..n).rev().step_by(step.max(1)).take(64).collect()
    }
}

/// Contiguous chunks (start, end) to try removing from a long list.
pub fn shrink_chunks(n: usize) -> Vec<(usize, usize)> {
    if n <= 300 {
        return vec![];
    }
    let mut v = vec![];
    for parts in [2usize, 4, 16, 64] {
        let sz = n / parts;
        if sz == 0 {
            continue;
        }
        for k in 0..parts {
            v.push((k * sz, ((k + 1) * sz).min(n)));
        }
    }
    v
}
