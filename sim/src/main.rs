//! sim — deterministic simulator with fault injection for gfx-rs/rspirv.
//!   sim <Cxx> <quick|thorough>     run a check (regressions, seeded batch, triage, evidence)
//!   sim replay <file>              re-execute a replay file in a fresh process
//!   sim selftest <what>            determinism / snapshot self-tests
//! internal: sim worker …, sim replay-exec <file>

mod acceptor;
mod bdrive;
mod bglue;
mod core;
mod faults;
mod guard;
mod kinds;
mod layout;
mod modcmp;
mod model;
mod producer;
mod props;
mod real;
mod rng;
mod runner;
mod snapshot;

use crate::core::{Property, Tier};
use std::path::Path;

macro_rules! dispatch {
    ($id:expr, $f:ident, $($arg:expr),*) => {
        match $id {
            "C01" => runner::$f::<props::c01::C01>($($arg),*),
            "C03" => runner::$f::<props::c03::C03>($($arg),*),
            "C04" => runner::$f::<props::c04::C04>($($arg),*),
            "C05" => runner::$f::<props::c05::C05>($($arg),*),
            "C06" => runner::$f::<props::c06::C06>($($arg),*),
            "C10" => runner::$f::<props::c10::C10>($($arg),*),
            "C11" => runner::$f::<props::c11::C11>($($arg),*),
            "C12" => runner::$f::<props::c12::C12>($($arg),*),
            "C13" => runner::$f::<props::c13::C13>($($arg),*),
            "C14" => runner::$f::<props::c14::C14>($($arg),*),
            "C19" => runner::$f::<props::c19::C19>($($arg),*),
            "C20" => runner::$f::<props::c20::C20>($($arg),*),
            other => {
                eprintln!("HARNESS-ERROR: unknown property {}", other);
                std::process::exit(2)
            }
        }
    };
}

fn main() {
    let args: Vec<String> = std::env::args().collect();
    if args.len() < 2 {
        eprintln!("usage: sim <Cxx> <quick|thorough> | replay <file> | selftest <what>");
        std::process::exit(2);
    }
    match args[1].as_str() {
        "worker" => {
            let tier = Tier::parse(&args[3]).expect("tier");
            let seed: u64 = args[4].parse().expect("seed");
            let start: u64 = args[5].parse().expect("start");
            let end: u64 = args[6].parse().expect("end");
            let total: u64 = args[7].parse().expect("total");
            let prefix = args[8].clone();
            dispatch!(args[2].as_str(), worker, tier, seed, start, end, total, &prefix)
        }
        "replay-exec" => {
            let rf: runner::ReplayFile = match std::fs::read(&args[2]).map_err(|e| e.to_string()).and_then(|b| serde_json::from_slice(&b).map_err(|e| e.to_string())) {
                Ok(r) => r,
                Err(e) => {
                    eprintln!("HARNESS-ERROR: {}", e);
                    std::process::exit(2)
                }
            };
            let code = dispatch!(rf.property.as_str(), replay_exec, &rf);
            std::process::exit(code)
        }
        "replay" => std::process::exit(runner::replay_cmd(Path::new(&args[2]))),
        "selftest" if args.get(2).map(|s| s.as_str()) == Some("determinism") => {
            let n: u64 = args.get(4).and_then(|s| s.parse().ok()).unwrap_or(2000);
            let ids: Vec<String> = match args.get(3).map(|s| s.as_str()) {
                Some("all") | None => ["C01", "C03", "C04", "C05", "C06", "C10", "C11", "C12", "C13", "C14", "C19", "C20"].iter().map(|s| s.to_string()).collect(),
                Some(x) => vec![x.to_string()],
            };
            let mut worst = 0;
            for id in ids {
                let n = if id == "C20" { n.min(300) } else { n };
                let c = dispatch!(id.as_str(), determinism, n);
                worst = worst.max(c);
            }
            std::process::exit(worst)
        }
        "miri-lane" => {
            let start: u64 = args.get(2).and_then(|s| s.parse().ok()).unwrap_or(0);
            let count: u64 = args.get(3).and_then(|s| s.parse().ok()).unwrap_or(100);
            std::process::exit(props::c04::miri_lane(start, count))
        }
        "inproc" => {
            let start: u64 = args.get(3).and_then(|s| s.parse().ok()).unwrap_or(0);
            let count: u64 = args.get(4).and_then(|s| s.parse().ok()).unwrap_or(100);
            let code = dispatch!(args[2].as_str(), inproc, start, count);
            std::process::exit(code)
        }
        "selftest" => std::process::exit(selftest(args.get(2).map(|s| s.as_str()).unwrap_or("bindings"))),
        id if id.starts_with('C') => {
            let tier = args
                .get(2)
                .cloned()
                .or_else(|| std::env::var("VERIF_TIER").ok())
                .and_then(|t| Tier::parse(&t))
                .unwrap_or(Tier::Quick);
            let code = dispatch!(id, run_check, tier);
            std::process::exit(code)
        }
        other => {
            eprintln!("HARNESS-ERROR: unknown command {}", other);
            std::process::exit(2)
        }
    }
}

fn selftest(what: &str) -> i32 {
    match what {
        "bindings" => {
            let bs = bglue::bindings();
            let callable = bglue::METHODS.iter().filter(|m| m.callable).count();
            println!("methods parsed: {}  callable by the glue: {}  bound to an opcode: {}", bglue::METHODS.len(), callable, bs.all.len());
            println!("not callable: {:?}", bglue::METHODS.iter().filter(|m| !m.callable).map(|m| m.name).collect::<Vec<_>>());
            println!("callable but unbound: {:?}", bs.unbound);
            let mut per = std::collections::BTreeMap::new();
            for b in &bs.all {
                *per.entry(format!("{:?}", b.class)).or_insert(0) += 1;
            }
            println!("per class: {:?}", per);
            0
        }
        other => {
            eprintln!("unknown selftest {}", other);
            2
        }
    }
}
