//! Reference acceptor (word level, table-driven from the frozen snapshot) and
//! reference type context (DESIGN §3.3/§3.4).  Predicts, for any byte string,
//! either the accepted instruction sequence or the class / instruction number /
//! extent of the first malformed instruction, or "don't care" where the property
//! text leaves the answer open.

use crate::model::*;
use crate::snapshot::{snap, Cat, KindId, Quant};
use std::collections::{BTreeMap, BTreeSet};

#[derive(Clone, Copy, Debug, PartialEq, Eq, PartialOrd, Ord)]
pub enum Class {
    HeaderIncomplete,
    HeaderIncorrect,
    Endianness,
    ZeroWordCount,
    UnknownOpcode,
    Missing,
    Surplus,
    /// unknown enumerant / mask bit, invalid UTF-8, unsupported literal type, bad SpecConstantOp number
    Undecodable,
}

impl Class {
    pub fn name(self) -> &'static str {
        match self {
            Class::HeaderIncomplete => "HeaderIncomplete",
            Class::HeaderIncorrect => "HeaderIncorrect",
            Class::Endianness => "Endianness",
            Class::ZeroWordCount => "ZeroWordCount",
            Class::UnknownOpcode => "UnknownOpcode",
            Class::Missing => "Missing",
            Class::Surplus => "Surplus",
            Class::Undecodable => "Undecodable",
        }
    }
}

#[derive(Clone, Debug, PartialEq)]
pub struct Rejected {
    /// acceptable classes (first = the left-most problem; more than one where the statement is ambiguous)
    pub classes: Vec<Class>,
    /// 1-based number of the first malformed instruction (0 for header problems)
    pub index: usize,
    /// declared extent of that instruction in bytes [start, end] (end inclusive for offsets)
    pub start: usize,
    pub end: usize,
    pub opcode: u16,
    pub sub: &'static str,
}

#[derive(Clone, Debug, PartialEq)]
pub enum Outcome {
    Accept,
    Reject(Rejected),
    /// outcome not judged (reason); the delivered prefix still is
    DontCare(&'static str),
}

#[derive(Clone, Copy, Debug, PartialEq, Eq)]
pub enum Ty {
    Int(u32),
    Float(u32),
}

#[derive(Default, Clone)]
pub struct TypeCtx {
    pub types: BTreeMap<u32, Ty>,
    pub defined: BTreeSet<u32>,
    pub poisoned: BTreeSet<u32>,
}

#[derive(Clone, Copy, Debug, PartialEq, Eq)]
pub enum Width {
    One,
    Two,
    Unsupported,
    /// id defined more than once (only via duplication faults): no prediction
    Poisoned,
}

impl TypeCtx {
    pub fn width_of(&self, id: u32) -> Width {
        if self.poisoned.contains(&id) {
            return Width::Poisoned;
        }
        match self.types.get(&id) {
            None => Width::One,
            Some(Ty::Int(8)) | Some(Ty::Int(16)) | Some(Ty::Int(32)) => Width::One,
            Some(Ty::Int(64)) => Width::Two,
            Some(Ty::Float(16)) | Some(Ty::Float(32)) => Width::One,
            Some(Ty::Float(64)) => Width::Two,
            Some(_) => Width::Unsupported,
        }
    }
    pub fn track(&mut self, i: &MInst) {
        let s = snap();
        let Some(rid) = i.rid else { return };
        if !self.defined.insert(rid) {
            self.poisoned.insert(rid);
        }
        let name = s.inst(i.opcode).map(|g| g.name.as_str()).unwrap_or("");
        if name.starts_with("Type") {
            let w = match i.ops.first() {
                Some(MOp::W(_, w)) => Some(*w),
                _ => None,
            };
            match (name, w) {
                ("TypeInt", Some(w)) => {
                    self.types.insert(rid, Ty::Int(w));
                }
                ("TypeFloat", Some(w)) => {
                    self.types.insert(rid, Ty::Float(w));
                }
                _ => {}
            }
        } else if let Some(rt) = i.rtype {
            if self.poisoned.contains(&rt) {
                self.poisoned.insert(rid);
            } else if let Some(t) = self.types.get(&rt).cloned() {
                self.types.insert(rid, t);
            }
        }
    }
}

pub struct Verdict {
    pub header: Option<[u32; 5]>,
    /// accepted instructions preceding the first rejected one, with their byte offsets
    pub insts: Vec<MInst>,
    pub starts: Vec<usize>,
    pub outcome: Outcome,
    pub ctx: TypeCtx,
    /// probes for coverage
    pub saw_ctx64: bool,
    pub saw_string: bool,
}

enum Problem {
    Missing(&'static str),
    Undecodable(&'static str),
    DontCare(&'static str),
}

struct Cur<'a> {
    bytes: &'a [u8],
    nwords: usize,
    pos: usize,
    end_decl: usize,
}

impl<'a> Cur<'a> {
    fn word_at(&self, i: usize) -> u32 {
        u32::from_le_bytes(self.bytes[i * 4..i * 4 + 4].try_into().unwrap())
    }
    fn has_more(&self) -> bool {
        self.pos < self.end_decl
    }
    fn word(&mut self) -> Result<u32, Problem> {
        if self.pos >= self.end_decl {
            return Err(Problem::Missing("extent exhausted"));
        }
        if self.pos >= self.nwords {
            return Err(Problem::Missing("stream ended"));
        }
        let w = self.word_at(self.pos);
        self.pos += 1;
        Ok(w)
    }
    fn string(&mut self) -> Result<String, Problem> {
        let b0 = self.pos * 4;
        let b1 = (self.end_decl.saturating_mul(4)).min(self.bytes.len());
        if b0 >= b1 {
            return Err(Problem::Missing("no room for a string"));
        }
        let win = &self.bytes[b0..b1];
        let p = match win.iter().position(|c| *c == 0) {
            None => return Err(Problem::Missing("string not terminated inside the extent")),
            Some(p) => p,
        };
        let consumed = p / 4 + 1;
        if self.pos + consumed > self.nwords {
            return Err(Problem::Missing("terminator word cut by end of stream"));
        }
        let st = match std::str::from_utf8(&win[..p]) {
            Ok(s) => s.to_string(),
            Err(_) => return Err(Problem::Undecodable("string is not UTF-8")),
        };
        self.pos += consumed;
        Ok(st)
    }
}

fn parse_variant(c: &mut Cur, k: KindId, ops: &mut Vec<MOp>) -> Result<(), Problem> {
    let s = snap();
    match s.cat(k) {
        Cat::Id | Cat::LitInt | Cat::LitFloat | Cat::LitExtInst => {
            let w = c.word()?;
            ops.push(MOp::W(k, w));
        }
        Cat::LitString => {
            let st = c.string()?;
            ops.push(MOp::S(st));
        }
        Cat::ValueEnum | Cat::Mask => {
            let w = c.word()?;
            if !s.valid_word(k, w) {
                return Err(Problem::Undecodable("undeclared enumerant or mask bit"));
            }
            ops.push(MOp::W(k, w));
            for p in s.params_of(k, w) {
                parse_variant(c, p, ops)?;
            }
        }
        _ => panic!("parse_variant: unexpected kind {}", s.kind_name(k)),
    }
    Ok(())
}

fn parse_literal(c: &mut Cur, ctx: &TypeCtx, type_id: u32, ops: &mut Vec<MOp>, saw64: &mut bool) -> Result<(), Problem> {
    let s = snap();
    match ctx.width_of(type_id) {
        Width::Poisoned => Err(Problem::DontCare("literal typed by an id defined more than once")),
        Width::Unsupported => Err(Problem::Undecodable("literal of unsupported width")),
        Width::One => {
            let w = c.word()?;
            ops.push(MOp::W(s.k_lit32, w));
            Ok(())
        }
        Width::Two => {
            *saw64 = true;
            let lo = c.word()?;
            let hi = c.word()?;
            ops.push(MOp::L64(((hi as u64) << 32) | lo as u64));
            Ok(())
        }
    }
}

/// Can the nested opcode of an OpSpecConstantOp be judged? (all operands single, simple kinds)
pub fn spec_op_simple(opcode: u16) -> bool {
    let s = snap();
    match s.inst(opcode) {
        None => false,
        Some(g) => g.operands.iter().all(|(k, q)| {
            matches!(s.cat(*k), Cat::IdResultType | Cat::IdResult)
                || (*q == Quant::One && !matches!(s.cat(*k), Cat::LitCtx | Cat::LitSpecOp | Cat::PairLitId))
        }),
    }
}

#[allow(clippy::too_many_arguments)]
fn parse_kind(
    c: &mut Cur,
    ctx: &TypeCtx,
    k: KindId,
    rtype: &mut Option<u32>,
    rid: &mut Option<u32>,
    ops: &mut Vec<MOp>,
    saw64: &mut bool,
) -> Result<(), Problem> {
    let s = snap();
    match s.cat(k) {
        Cat::IdResultType => *rtype = Some(c.word()?),
        Cat::IdResult => *rid = Some(c.word()?),
        Cat::LitInt | Cat::LitFloat => {
            let w = c.word()?;
            ops.push(MOp::W(s.k_lit32, w));
        }
        Cat::LitCtx => {
            let t = rtype.ok_or(Problem::DontCare("context-dependent literal without result type"))?;
            parse_literal(c, ctx, t, ops, saw64)?;
        }
        Cat::LitSpecOp => {
            let n = c.word()?;
            if n > 0xFFFF || s.inst(n as u16).is_none() {
                return Err(Problem::Undecodable("SpecConstantOp number is not a declared opcode"));
            }
            if !spec_op_simple(n as u16) {
                return Err(Problem::DontCare("SpecConstantOp nesting an opcode with optional/variadic/composite operands"));
            }
            ops.push(MOp::W(s.k_specop, n));
            let g = s.inst(n as u16).unwrap();
            for (nk, _) in &g.operands {
                if matches!(s.cat(*nk), Cat::IdResultType | Cat::IdResult) {
                    continue;
                }
                let mut dummy_t = None;
                let mut dummy_r = None;
                parse_kind(c, ctx, *nk, &mut dummy_t, &mut dummy_r, ops, saw64)?;
            }
        }
        Cat::PairLitId => {
            let sel = match ops.first() {
                Some(MOp::W(kk, v)) if *kk == s.k_idref => *v,
                _ => return Err(Problem::DontCare("switch without selector")),
            };
            parse_literal(c, ctx, sel, ops, saw64)?;
            let w = c.word()?;
            ops.push(MOp::W(s.k_idref, w));
        }
        Cat::PairIdLit => {
            let a = c.word()?;
            ops.push(MOp::W(s.k_idref, a));
            let b = c.word()?;
            ops.push(MOp::W(s.k_lit32, b));
        }
        Cat::PairIdId => {
            let a = c.word()?;
            ops.push(MOp::W(s.k_idref, a));
            let b = c.word()?;
            ops.push(MOp::W(s.k_idref, b));
        }
        _ => parse_variant(c, k, ops)?,
    }
    Ok(())
}

pub fn accept(bytes: &[u8]) -> Verdict {
    let s = snap();
    let nwords = bytes.len() / 4;
    let mut v = Verdict {
        header: None,
        insts: vec![],
        starts: vec![],
        outcome: Outcome::Accept,
        ctx: TypeCtx::default(),
        saw_ctx64: false,
        saw_string: false,
    };
    let word_at = |i: usize| u32::from_le_bytes(bytes[i * 4..i * 4 + 4].try_into().unwrap());
    let hdr_reject = |classes: Vec<Class>, sub| {
        Outcome::Reject(Rejected {
            classes,
            index: 0,
            start: 0,
            end: 20,
            opcode: 0,
            sub,
        })
    };
    if nwords < 5 {
        let mut classes = vec![Class::HeaderIncomplete];
        if nwords >= 1 && word_at(0) != MAGIC {
            classes.push(if word_at(0) == MAGIC.swap_bytes() { Class::Endianness } else { Class::HeaderIncorrect });
        }
        v.outcome = hdr_reject(classes, "fewer than five words");
        return v;
    }
    if word_at(0) != MAGIC {
        v.outcome = if word_at(0) == MAGIC.swap_bytes() {
            hdr_reject(vec![Class::Endianness], "byte-swapped magic")
        } else {
            hdr_reject(vec![Class::HeaderIncorrect], "wrong magic")
        };
        return v;
    }
    v.header = Some([word_at(0), word_at(1), word_at(2), word_at(3), word_at(4)]);
    let mut pos = 5usize;
    let mut index = 0usize;
    loop {
        if pos >= nwords {
            if bytes.len() % 4 != 0 {
                v.outcome = Outcome::DontCare("trailing fragment of 1-3 bytes where an instruction would start");
            }
            return v;
        }
        index += 1;
        let first = word_at(pos);
        let wc = (first >> 16) as usize;
        let opcode = (first & 0xffff) as u16;
        let start = pos * 4;
        let end = start + 4 * wc;
        let mk = |classes: Vec<Class>, sub: &'static str| {
            Outcome::Reject(Rejected {
                classes,
                index,
                start,
                end: end.max(start + 4),
                opcode,
                sub,
            })
        };
        let g = s.inst(opcode);
        if wc == 0 {
            let mut classes = vec![Class::ZeroWordCount];
            if g.is_none() {
                classes.push(Class::UnknownOpcode);
            }
            v.outcome = mk(classes, "zero word count");
            return v;
        }
        let Some(g) = g else {
            v.outcome = mk(vec![Class::UnknownOpcode], "unknown opcode");
            return v;
        };
        let mut c = Cur {
            bytes,
            nwords,
            pos: pos + 1,
            end_decl: pos + wc,
        };
        let clipped = c.end_decl > nwords;
        let mut rtype = None;
        let mut rid = None;
        let mut ops: Vec<MOp> = vec![];
        let mut problem: Option<Problem> = None;
        'operands: for (k, q) in &g.operands {
            match q {
                Quant::One => {
                    if !c.has_more() {
                        problem = Some(Problem::Missing("required operand absent"));
                        break 'operands;
                    }
                    if let Err(p) = parse_kind(&mut c, &v.ctx, *k, &mut rtype, &mut rid, &mut ops, &mut v.saw_ctx64) {
                        problem = Some(p);
                        break 'operands;
                    }
                }
                Quant::ZeroOrOne => {
                    if c.has_more() {
                        if let Err(p) = parse_kind(&mut c, &v.ctx, *k, &mut rtype, &mut rid, &mut ops, &mut v.saw_ctx64) {
                            problem = Some(p);
                            break 'operands;
                        }
                    }
                }
                Quant::ZeroOrMore => {
                    while c.has_more() {
                        if let Err(p) = parse_kind(&mut c, &v.ctx, *k, &mut rtype, &mut rid, &mut ops, &mut v.saw_ctx64) {
                            problem = Some(p);
                            break 'operands;
                        }
                    }
                }
            }
        }
        match problem {
            Some(Problem::DontCare(why)) => {
                v.outcome = Outcome::DontCare(why);
                return v;
            }
            Some(Problem::Missing(sub)) => {
                // an extent reaching past the end of the stream may also be reported as surplus words
                let classes = if clipped { vec![Class::Missing, Class::Surplus] } else { vec![Class::Missing] };
                v.outcome = mk(classes, sub);
                return v;
            }
            Some(Problem::Undecodable(sub)) => {
                v.outcome = mk(vec![Class::Undecodable], sub);
                return v;
            }
            None => {}
        }
        if c.has_more() {
            let classes = if clipped { vec![Class::Surplus, Class::Missing] } else { vec![Class::Surplus] };
            v.outcome = mk(classes, "words left over after the last operand");
            return v;
        }
        let inst = MInst { opcode, rtype, rid, ops };
        if inst.ops.iter().any(|o| matches!(o, MOp::S(_))) {
            v.saw_string = true;
        }
        v.ctx.track(&inst);
        v.insts.push(inst);
        v.starts.push(start);
        pos += wc;
    }
}
