//! Driver for dr::Builder histories, shared by C06 / C12 / C13: executes one
//! trace operation against the real Builder, observing the module and the
//! selection before and after, and computing what changed.

use crate::bglue::*;
use crate::core::{guarded, PanicInfo};
use crate::layout::{MBlock, MFunction, MModule};
use crate::modcmp::module_to_model;
use crate::model::*;
use crate::producer::{Gen, ProdCfg};
use crate::rng::Rng;
use crate::snapshot::snap;
use rspirv::dr::Builder;
use rspirv::spirv;
use serde::{Deserialize, Serialize};

#[derive(Clone, Debug, Serialize, Deserialize, PartialEq)]
pub enum BOp {
    BeginFunction { explicit_id: bool, control: u32 },
    EndFunction,
    Parameter,
    BeginBlock { explicit_id: bool },
    BeginBlockNoLabel { explicit_id: bool },
    SelectFunction(Option<usize>),
    SelectBlock(Option<usize>),
    SelectFunctionByName(String),
    PopInstruction,
    Id,
    SetVersion(u8, u8),
    /// a bound instruction-emitting method; concrete arguments are a pure function of
    /// (arg_seed, ids the builder has handed out so far), so the trace stays meaningful
    /// while the shrinker removes earlier operations
    Call { method: String, arg_seed: u64, explicit_rid: bool, ip_kind: u8, ip_k: usize },
    /// take the module and continue from it with Builder::new_from_module
    Continue,
    /// abandon the builder and continue from an otherwise empty module whose header bound is this value
    ContinueFromBound(u32),
    /// scale: direct calls with sizes at 16-bit boundaries (0: string of n bytes, 1: type_struct with n members,
    /// 2: n undefs of a 64-bit int type followed by a 64-bit constant of it)
    Scale(u8, u32),
}

#[derive(Clone, Debug, PartialEq)]
pub enum Place {
    Section(usize),
    Def(usize),
    Param(usize),
    Label(usize, usize),
    Block(usize, usize),
    End(usize),
}

#[derive(Clone, Debug)]
pub enum Delta {
    Same,
    Added(Place, usize, MInst),
    Removed(Place, usize, MInst),
    /// memory model replaced, new function, new block, … or anything else (described)
    Other(String),
}

fn tagged(m: &MModule) -> Vec<(Place, MInst)> {
    let mut v = vec![];
    for (s, sec) in m.sections.iter().enumerate() {
        for i in sec {
            v.push((Place::Section(s), i.clone()));
        }
    }
    for (f, func) in m.functions.iter().enumerate() {
        if let Some(d) = &func.def {
            v.push((Place::Def(f), d.clone()));
        }
        for p in &func.params {
            v.push((Place::Param(f), p.clone()));
        }
        for (b, blk) in func.blocks.iter().enumerate() {
            if let Some(l) = &blk.label {
                v.push((Place::Label(f, b), l.clone()));
            }
            for i in &blk.insts {
                v.push((Place::Block(f, b), i.clone()));
            }
        }
        if let Some(e) = &func.end {
            v.push((Place::End(f), e.clone()));
        }
    }
    v
}

fn shape(m: &MModule) -> Vec<usize> {
    let mut v = vec![m.functions.len()];
    for f in &m.functions {
        v.push(f.blocks.len());
    }
    v
}

pub fn delta(pre: &MModule, post: &MModule) -> Delta {
    if pre == post {
        return Delta::Same;
    }
    let a = tagged(pre);
    let b = tagged(post);
    let index_in_place = |v: &Vec<(Place, MInst)>, i: usize| v[..i].iter().filter(|(p, _)| *p == v[i].0).count();
    if b.len() == a.len() + 1 {
        let i = (0..a.len()).find(|i| a[*i] != b[*i]).unwrap_or(a.len());
        let mut c = b.clone();
        let (place, inst) = c.remove(i);
        if c == a && (shape(pre) == shape(post) || matches!(place, Place::Def(_) | Place::Label(..))) {
            return Delta::Added(place, index_in_place(&b, i), inst);
        }
    }
    if a.len() == b.len() + 1 {
        let i = (0..b.len()).find(|i| a[*i] != b[*i]).unwrap_or(b.len());
        let mut c = a.clone();
        let (place, inst) = c.remove(i);
        if c == b && shape(pre) == shape(post) {
            return Delta::Removed(place, index_in_place(&a, i), inst);
        }
    }
    Delta::Other(format!("module went from {} to {} instructions (shape {:?} -> {:?})", a.len(), b.len(), shape(pre), shape(post)))
}

#[derive(Clone, Copy, Debug, PartialEq)]
pub struct Sel {
    pub f: Option<usize>,
    pub b: Option<usize>,
}

pub struct Report {
    pub what: String,
    pub kind: CallKind,
    pub binding: Option<Binding>,
    pub pre_sel: Sel,
    pub post_sel: Sel,
    pub pre: MModule,
    pub post: MModule,
    pub ret: Ret,
    pub panic: Option<PanicInfo>,
    /// the instruction the call was meant to emit (result id filled in from the return value)
    pub intended: Option<MInst>,
    /// explicit result id passed, if any
    pub explicit_rid: Option<u32>,
    /// the explicit id repeats an id already in use (an existing declaration's id or one of the call's own operands)
    pub explicit_reused: bool,
    pub ip: Ip,
    /// arguments could not be zipped against the grammar: call executed, not judged
    pub mismatch: Option<String>,
    /// fresh id handed out by `Id`
    pub fresh_id: Option<u32>,
    pub popped: bool,
}

#[derive(Clone, Copy, Debug, PartialEq)]
pub enum CallKind {
    BeginFunction,
    EndFunction,
    Parameter,
    BeginBlock,
    BeginBlockNoLabel,
    SelectFunction,
    SelectBlock,
    SelectFunctionByName,
    Pop,
    Id,
    SetVersion,
    Method,
    Continue,
}

pub struct Drv {
    pub b: Builder,
    /// ids defined by some emitted instruction
    pub defined: Vec<u32>,
    /// ids obtained from the builder that nothing defines (safe selectors / unknown types)
    pub untyped: Vec<u32>,
    /// declared int/float types whose literals take one word
    pub one_word_types: Vec<u32>,
    pub two_word_types: Vec<u32>,
    /// every id obtained from the builder or passed to it
    pub all_ids: Vec<u32>,
    pub version: Option<(u8, u8)>,
    pub continued_from_bound: Option<u32>,
    /// ids reserved with id() for later use as EXPLICIT result ids (never used as operands before they
    /// are defined): makes definitions appear out of numeric id order
    pub reserved: Vec<u32>,
    /// result ids of ext_inst_import calls
    pub import_ids: Vec<u32>,
    /// result ids of functions / struct types / constants by value (conjunction hot spots)
    pub function_ids: Vec<u32>,
    pub struct_ids: Vec<u32>,
    pub type_ids: Vec<u32>,
    pub constants: Vec<(u32, u32, u32)>, // (id, type, value)
    /// arguments of recent calls by method name (near-repeat lane: the same request again, or the same
    /// request with exactly one operand changed / one optional operand toggled)
    pub recent_calls: Vec<(&'static str, Option<u32>, Vec<crate::producer::Group>)>,
    /// module-scope values whose type is a declared 64-bit type (switch selectors with two-word case literals)
    pub typed64: Vec<u32>,
    /// the no-panic / structure workload (C12) may also issue requests that are not type-consistent (a switch whose case
    /// literals mix one- and two-word variants); the round-trip workloads must not
    pub allow_ill_typed: bool,
}

/// marker in the top 16 bits of an argument seed: enumerant-pair sweep (see `Drv::bias_arguments`)
pub const PAIR_MARK: u64 = 0xE11E;

/// ordered pairs (index, index) of enumerants of a kind whose names are related (one is a prefix of the other or they
/// share their first six letters): LocalSize / LocalSizeId / LocalSizeHint, DenormPreserve / DenormFlushToZero, ...
pub fn related_pairs(kind_name: &str) -> &'static Vec<(u16, u16)> {
    use std::sync::OnceLock;
    static MODES: OnceLock<Vec<(u16, u16)>> = OnceLock::new();
    static DECOS: OnceLock<Vec<(u16, u16)>> = OnceLock::new();
    let cell = if kind_name == "ExecutionMode" { &MODES } else { &DECOS };
    cell.get_or_init(|| {
        let s = snap();
        let e = &s.enums[&s.kind(kind_name)];
        let mut v = vec![];
        for (i, a) in e.numbers.iter().enumerate() {
            for (j, b) in e.numbers.iter().enumerate() {
                if i == j {
                    continue;
                }
                let (na, nb) = (&e.values[a], &e.values[b]);
                let common = na.chars().zip(nb.chars()).take_while(|(x, y)| x == y).count();
                if common >= 6 || na.starts_with(nb.as_str()) || nb.starts_with(na.as_str()) {
                    v.push((i as u16, j as u16));
                }
            }
        }
        v
    })
}

impl Drv {
    pub fn new() -> Drv {
        let mut d = Drv {
            b: Builder::new(),
            defined: vec![],
            untyped: vec![],
            one_word_types: vec![],
            two_word_types: vec![],
            all_ids: vec![],
            version: None,
            continued_from_bound: None,
            reserved: vec![],
            import_ids: vec![],
            function_ids: vec![],
            struct_ids: vec![],
            type_ids: vec![],
            constants: vec![],
            recent_calls: vec![],
            typed64: vec![],
            allow_ill_typed: false,
        };
        // a few ids nothing defines: used as switch selectors and as "unknown" result types
        for _ in 0..3 {
            let id = d.b.id();
            d.untyped.push(id);
            d.all_ids.push(id);
        }
        d
    }

    pub fn sel(&self) -> Sel {
        Sel {
            f: self.b.selected_function(),
            b: self.b.selected_block(),
        }
    }

    pub fn model(&self) -> MModule {
        module_to_model(self.b.module_ref())
    }

    fn any_id(&mut self, rng: &mut Rng) -> u32 {
        self.ensure_untyped();
        if !self.defined.is_empty() && rng.chance(3, 4) {
            *rng.pick(&self.defined)
        } else {
            *rng.pick(&self.untyped)
        }
    }

    /// the pool of never-defined ids must not be empty (argument generation draws from it)
    pub fn ensure_untyped(&mut self) {
        if self.untyped.is_empty() {
            let id = self.b.id();
            self.untyped.push(id);
            self.all_ids.push(id);
        }
    }

    fn ip(&self, kind: u8, k: usize, sel: Sel) -> Ip {
        let len = match (sel.f, sel.b) {
            (Some(f), Some(b)) => self.b.module_ref().functions.get(f).and_then(|f| f.blocks.get(b)).map(|b| b.instructions.len()).unwrap_or(0),
            _ => 0,
        };
        match kind % 4 {
            0 => Ip::End,
            1 => Ip::Begin,
            2 => Ip::FromEnd(k % (len + 1)),
            _ => Ip::FromBegin(k % (len + 1)),
        }
    }

    /// Execute one operation. Never panics itself: a Builder panic is captured in the report.
    pub fn step(&mut self, op: &BOp) -> Report {
        let s = snap();
        let pre_sel = self.sel();
        let pre = self.model();
        let mut rep = Report {
            what: String::new(),
            kind: CallKind::Method,
            binding: None,
            pre_sel,
            post_sel: pre_sel,
            pre: pre.clone(),
            post: pre,
            ret: Ret::Unit,
            panic: None,
            intended: None,
            explicit_rid: None,
            explicit_reused: false,
            ip: Ip::End,
            mismatch: None,
            fresh_id: None,
            popped: false,
        };
        let mut seed_rng;
        let res: Result<Ret, PanicInfo> = match op {
            BOp::BeginFunction { explicit_id, control } => {
                rep.kind = CallKind::BeginFunction;
                let mut r = Rng::new(*control as u64 ^ 0xB0);
                let rt = self.any_id(&mut r);
                let ft = self.any_id(&mut r);
                // control bits 4-5 both set (only C12 generates them): the explicit id repeats an earlier function's id
                // (the builder does not validate ids; selection and structure must not be confused by it)
                let fid = if *explicit_id && *control & 0x30 == 0x30 && !self.function_ids.is_empty() {
                    Some(self.function_ids[(*control >> 6) as usize % self.function_ids.len()])
                } else if *explicit_id {
                    Some(self.fresh_untracked())
                } else {
                    None
                };
                rep.explicit_rid = fid;
                let ctl = spirv::FunctionControl::from_bits(*control & 0xF).unwrap_or(spirv::FunctionControl::NONE);
                rep.what = format!("begin_function({}, {:?}, {:?}, {})", rt, fid, ctl, ft);
                rep.intended = Some(MInst {
                    opcode: s.op("Function"),
                    rtype: Some(rt),
                    rid: fid,
                    ops: vec![MOp::W(s.kind("FunctionControl"), ctl.bits()), MOp::W(s.k_idref, ft)],
                });
                let b = &mut self.b;
                guarded(|| Ret::ResId(b.begin_function(rt, fid, ctl, ft).map_err(|e| err_name(&e))))
            }
            BOp::EndFunction => {
                rep.kind = CallKind::EndFunction;
                rep.what = "end_function()".into();
                let b = &mut self.b;
                guarded(|| Ret::ResUnit(b.end_function().map_err(|e| err_name(&e))))
            }
            BOp::Parameter => {
                rep.kind = CallKind::Parameter;
                let mut r = Rng::new(self.all_ids.len() as u64);
                let ty = self.any_id(&mut r);
                rep.what = format!("function_parameter({})", ty);
                rep.intended = Some(MInst {
                    opcode: s.op("FunctionParameter"),
                    rtype: Some(ty),
                    rid: None,
                    ops: vec![],
                });
                let b = &mut self.b;
                guarded(|| Ret::ResId(b.function_parameter(ty).map_err(|e| err_name(&e))))
            }
            BOp::BeginBlock { explicit_id } | BOp::BeginBlockNoLabel { explicit_id } => {
                let no_label = matches!(op, BOp::BeginBlockNoLabel { .. });
                rep.kind = if no_label { CallKind::BeginBlockNoLabel } else { CallKind::BeginBlock };
                let lid = if *explicit_id { Some(self.fresh_untracked()) } else { None };
                rep.explicit_rid = lid;
                rep.what = format!("{}({:?})", if no_label { "begin_block_no_label" } else { "begin_block" }, lid);
                rep.intended = Some(MInst {
                    opcode: s.op("Label"),
                    rtype: None,
                    rid: lid,
                    ops: vec![],
                });
                let b = &mut self.b;
                if no_label {
                    guarded(|| Ret::ResId(b.begin_block_no_label(lid).map_err(|e| err_name(&e))))
                } else {
                    guarded(|| Ret::ResId(b.begin_block(lid).map_err(|e| err_name(&e))))
                }
            }
            BOp::SelectFunction(i) => {
                rep.kind = CallKind::SelectFunction;
                rep.what = format!("select_function({:?})", i);
                let b = &mut self.b;
                guarded(|| Ret::ResUnit(b.select_function(*i).map_err(|e| err_name(&e))))
            }
            BOp::SelectBlock(i) => {
                rep.kind = CallKind::SelectBlock;
                rep.what = format!("select_block({:?})", i);
                let b = &mut self.b;
                guarded(|| Ret::ResUnit(b.select_block(*i).map_err(|e| err_name(&e))))
            }
            BOp::SelectFunctionByName(n) => {
                rep.kind = CallKind::SelectFunctionByName;
                rep.what = format!("select_function_by_name({:?})", n);
                let b = &mut self.b;
                guarded(|| Ret::ResUnit(b.select_function_by_name(n).map_err(|e| err_name(&e))))
            }
            BOp::PopInstruction => {
                rep.kind = CallKind::Pop;
                rep.what = "pop_instruction()".into();
                let b = &mut self.b;
                guarded(|| Ret::ResUnit(b.pop_instruction().map(|_| ()).map_err(|e| err_name(&e))))
            }
            BOp::Id => {
                rep.kind = CallKind::Id;
                rep.what = "id()".into();
                let b = &mut self.b;
                guarded(|| Ret::Id(b.id()))
            }
            BOp::SetVersion(ma, mi) => {
                rep.kind = CallKind::SetVersion;
                rep.what = format!("set_version({}, {})", ma, mi);
                self.version = Some((*ma, *mi));
                let b = &mut self.b;
                guarded(|| {
                    b.set_version(*ma, *mi);
                    Ret::Unit
                })
            }
            BOp::Continue => {
                rep.kind = CallKind::Continue;
                rep.what = "module() -> Builder::new_from_module".into();
                let old = std::mem::take(&mut self.b);
                guarded(|| old.module()).map(|m| {
                    self.continued_from_bound = m.header.as_ref().map(|h| h.bound);
                    self.b = Builder::new_from_module(m);
                    Ret::Unit
                })
            }
            BOp::ContinueFromBound(bound) => {
                rep.kind = CallKind::Continue;
                rep.what = format!("Builder::new_from_module(empty module with header bound {})", bound);
                let mut m = rspirv::dr::Module::new();
                m.header = Some(rspirv::dr::ModuleHeader::new(*bound));
                let bound = *bound;
                guarded(|| Builder::new_from_module(m)).map(|b| {
                    self.b = b;
                    self.continued_from_bound = Some(bound);
                    // ids of the abandoned builder mean nothing in the new module
                    self.defined.clear();
                    self.untyped.clear();
                    self.one_word_types.clear();
                    self.two_word_types.clear();
                    self.all_ids.clear();
                    self.reserved.clear();
                    self.import_ids.clear();
                    self.function_ids.clear();
                    self.struct_ids.clear();
                    self.type_ids.clear();
                    self.constants.clear();
                    self.typed64.clear();
                    self.recent_calls.clear();
                    Ret::Unit
                })
            }
            BOp::Scale(kind, n) => {
                rep.kind = CallKind::SetVersion; // judged like a call that must not touch the selection
                rep.what = format!("scale lane {} with n={}", kind, n);
                let n = *n as usize;
                let ids: Vec<u32> = self.defined.iter().chain(self.untyped.iter()).cloned().collect();
                let kind = *kind;
                if kind == 2 {
                    // the 64-bit constant declared at the end of the lane becomes a possible switch selector
                    let b = &mut self.b;
                    let r = guarded(|| {
                        let t32 = b.type_int_id(None, 32, 0);
                        for _ in 0..n {
                            b.undef(t32, None);
                        }
                        let t = b.type_float_id(None, 64, None);
                        b.constant_bit64(t, 0x0123_4567_89AB_CDEF)
                    });
                    match r {
                        Ok(id) => {
                            self.typed64.push(id);
                            rep.ret = Ret::Unit;
                        }
                        Err(pi) => rep.panic = Some(pi),
                    }
                    rep.post_sel = self.sel();
                    rep.post = self.model();
                    return rep;
                }
                let b = &mut self.b;
                guarded(move || {
                    match kind {
                        0 => {
                            let st: String = (0..n).map(|k| if k % 97 == 0 { 'x' } else { 'a' }).collect();
                            b.string(st);
                        }
                        1 => {
                            let members: Vec<u32> = (0..n).map(|k| ids[k % ids.len()]).collect();
                            b.type_struct_id(None, members);
                        }
                        _ => {
                            // tens of thousands of typed ids first, the 64-bit type and its constant after them
                            let t32 = b.type_int_id(None, 32, 0);
                            for _ in 0..n {
                                b.undef(t32, None);
                            }
                            let t = b.type_float_id(None, 64, None);
                            b.constant_bit64(t, 0x0123_4567_89AB_CDEF);
                        }
                    }
                    Ret::Unit
                })
            }
            BOp::Call { method, arg_seed, explicit_rid, ip_kind, ip_k } => {
                rep.kind = CallKind::Method;
                let bs = bindings();
                match bs.by_name.get(method.as_str()) {
                    None => {
                        rep.what = format!("{} (not bound in this tree)", method);
                        rep.mismatch = Some("method not bound".into());
                        Ok(Ret::NotCallable)
                    }
                    Some(bi) => {
                        let bind = bs.all[*bi].clone();
                        self.ensure_untyped();
                        seed_rng = Rng::new(*arg_seed);
                        let ip = if bind.insert { self.ip(*ip_kind, *ip_k, pre_sel) } else { Ip::End };
                        rep.ip = ip;
                        // intended instruction: grammar-directed, ids only from the builder's pools
                        let mut cfg = ProdCfg::parser_default(&mut seed_rng);
                        cfg.max_variadic = cfg.max_variadic.min(3);
                        cfg.exotic_strings = 2;
                        let mut g = Gen::new(&mut seed_rng, cfg);
                        g.no_forward = true;
                        g.ids = self.defined.iter().chain(self.untyped.iter()).cloned().collect();
                        g.untyped_pool = self.untyped.clone();
                        g.one_word_types = self.one_word_types.clone();
                        g.two_word_types = self.two_word_types.clone();
                        g.next_id = 0x4000_0000; // never handed to the builder: result ids come from the builder
                        let mut want = if bind.name == "constant_bit64" || bind.name == "spec_constant_bit64" {
                            // needs a declared 64-bit type; without one the call is not grammar-conforming
                            match self.two_word_types.first() {
                                None => {
                                    rep.what = format!("{} skipped: no 64-bit type declared yet", bind.name);
                                    rep.mismatch = Some("no 64-bit type".into());
                                    return rep;
                                }
                                Some(t) => {
                                    let v = ((g.rng.word() as u64) << 32) | g.rng.word() as u64;
                                    g.last_groups = vec![crate::producer::Group {
                                        kind: s.kind("LiteralContextDependentNumber"),
                                        quant: crate::snapshot::Quant::One,
                                        items: vec![vec![MOp::L64(v)]],
                                    }];
                                    MInst {
                                        opcode: bind.opcode,
                                        rtype: Some(*t),
                                        rid: None,
                                        ops: vec![MOp::L64(v)],
                                    }
                                }
                            }
                        } else {
                            g.inst(bind.opcode)
                        };
                        let mut groups = std::mem::take(&mut g.last_groups);
                        drop(g);
                        // conjunction hot spots: known / non-semantic set names, and ext_inst naming an imported set
                        if bind.name == "ext_inst_import" && arg_seed % 2 == 0 {
                            let name = ["GLSL.std.450", "OpenCL.std", "NonSemantic.DebugPrintf", "NonSemantic.Shader.DebugInfo.100"][(arg_seed / 2 % 4) as usize];
                            want.ops[0] = MOp::S(name.to_string());
                            groups[0].items[0][0] = MOp::S(name.to_string());
                        }
                        if (bind.name == "ext_inst" || bind.name == "insert_ext_inst") && !self.import_ids.is_empty() && arg_seed % 4 != 0 {
                            let set = self.import_ids[(arg_seed / 4) as usize % self.import_ids.len()];
                            want.ops[0] = MOp::W(s.k_idref, set);
                            groups[0].items[0][0] = MOp::W(s.k_idref, set);
                        }
                        self.bias_arguments(bind.name, *arg_seed, &mut want, &mut groups);
                        self.near_repeat(bind.name, *arg_seed, &mut want, &mut groups);
                        if (bind.name == "switch" || bind.name == "insert_switch") && !self.typed64.is_empty() && arg_seed % 3 == 0 && groups.len() == 3 {
                            // selector of a declared 64-bit type: every case literal takes two words
                            let sel = self.typed64[(arg_seed / 3) as usize % self.typed64.len()];
                            groups[0].items = vec![vec![MOp::W(s.k_idref, sel)]];
                            for it in groups[2].items.iter_mut() {
                                if let Some(MOp::W(_, v)) = it.first().cloned() {
                                    it[0] = MOp::L64(((v as u64) << 32) | (v as u64 ^ 0x5555_5555));
                                }
                            }
                            want.ops = groups.iter().flat_map(|g| g.items.iter().flatten().cloned()).collect();
                        }
                        if self.allow_ill_typed && (bind.name == "switch" || bind.name == "insert_switch") && groups.len() == 3 && groups[2].items.len() >= 2 && arg_seed % 4 == 1 {
                            // case literals of mixed variants (the builder takes any dr::Operand per case)
                            let k = (arg_seed / 4) as usize % groups[2].items.len();
                            let flipped = match groups[2].items[k].first().cloned() {
                                Some(MOp::W(_, v)) => MOp::L64(v as u64),
                                Some(MOp::L64(v)) => MOp::W(s.k_lit32, v as u32),
                                other => other.unwrap_or(MOp::W(s.k_lit32, 0)),
                            };
                            groups[2].items[k][0] = flipped;
                            want.ops = groups.iter().flat_map(|g| g.items.iter().flatten().cloned()).collect();
                        }
                        let has_rid = s.inst(bind.opcode).map(|gi| gi.operands.iter().any(|(k, _)| s.cat(*k) == crate::snapshot::Cat::IdResult)).unwrap_or(false);
                        // explicit result ids are usually fresh; tiny argument seeds (only the id-discipline workload draws
                        // them) also re-use the id of an existing type declaration, or one of the request's own operands
                        let rid_explicit = if bind.has_result_id_param && *explicit_rid {
                            let own_operand = want.ops.iter().find_map(|o| match o {
                                MOp::W(k, v) if *k == s.k_idref => Some(*v),
                                _ => None,
                            });
                            match (*arg_seed < 64 && bind.class == MClass::Type, arg_seed % 4) {
                                (true, 2) if !self.type_ids.is_empty() => {
                                    rep.explicit_reused = true;
                                    Some(self.type_ids[(arg_seed / 4) as usize % self.type_ids.len()])
                                }
                                (true, 3) if own_operand.is_some() && arg_seed % 8 == 7 => {
                                    rep.explicit_reused = true;
                                    own_operand
                                }
                                _ => Some(self.fresh_untracked()),
                            }
                        } else {
                            None
                        };
                        // an instruction that refers to its own (explicit, fresh) result id in one of its id operands - a
                        // variable initialised with itself, a copy of itself: nothing validates ids, it must go through
                        if let (Some(x), false, 5) = (rid_explicit, rep.explicit_reused, arg_seed % 16) {
                            'outer: for g in groups.iter_mut() {
                                if g.kind == s.k_idref {
                                    for it in g.items.iter_mut() {
                                        if let Some(MOp::W(_, v)) = it.first_mut() {
                                            *v = x;
                                            break 'outer;
                                        }
                                    }
                                }
                            }
                            want.ops = groups.iter().flat_map(|g| g.items.iter().flatten().cloned()).collect();
                        }
                        want.rid = if has_rid { rid_explicit } else { None };
                        rep.explicit_rid = rid_explicit;
                        let mut a = ArgSrc::new(want.rtype, rid_explicit, groups, ip);
                        rep.what = format!("{}[{}] ip={:?}", bind.name, show(&want), ip);
                        rep.intended = Some(want);
                        let midx = bind.midx;
                        rep.binding = Some(bind);
                        let b = &mut self.b;
                        let r = guarded(|| call_method(b, midx, &mut a));
                        a.finished();
                        rep.mismatch = a.mismatch.clone();
                        r
                    }
                }
            }
        };
        match res {
            Ok(r) => rep.ret = r,
            Err(pi) => rep.panic = Some(pi),
        }
        rep.post_sel = self.sel();
        rep.post = self.model();
        // bookkeeping of ids
        if let Some(id) = rep.ret.id() {
            if rep.kind == CallKind::Id {
                rep.fresh_id = Some(id);
                // alternate: reserved for a later explicit result id / never defined at all
                if id % 2 == 0 {
                    self.reserved.push(id);
                } else {
                    self.untyped.push(id);
                }
            }
            self.all_ids.push(id);
            if let Some(w) = &mut rep.intended {
                if w.rid.is_none() && rep.kind != CallKind::Id {
                    let needs = s.inst(w.opcode).map(|gi| gi.operands.iter().any(|(k, _)| s.cat(*k) == crate::snapshot::Cat::IdResult)).unwrap_or(false);
                    if needs {
                        w.rid = Some(id);
                    }
                }
            }
        }
        if let Delta::Added(_, _, inst) = delta(&rep.pre, &rep.post) {
            if let Some(rid) = inst.rid {
                if inst.is("ExtInstImport") {
                    self.import_ids.push(rid);
                }
                if inst.is("Function") {
                    self.function_ids.push(rid);
                }
                if inst.is("TypeStruct") {
                    self.struct_ids.push(rid);
                }
                if inst.name().starts_with("Type") {
                    self.type_ids.push(rid);
                }
                if inst.is("Constant") {
                    if let (Some(t), Some(MOp::W(_, v))) = (inst.rtype, inst.ops.first()) {
                        self.constants.push((rid, t, *v));
                    }
                }
                // any value whose result type is a declared 64-bit type is typed 64-bit for the parser (constants,
                // undefs, copies, parameters, ... also those defined under an id reserved before the type existed)
                if !inst.name().starts_with("Type") && inst.rtype.map(|t| self.two_word_types.contains(&t)).unwrap_or(false) && !self.typed64.contains(&rid) {
                    self.typed64.push(rid);
                }
            }
            if let Some(rid) = inst.rid {
                if !self.defined.contains(&rid) {
                    self.defined.push(rid);
                }
                if self.untyped.len() > 1 {
                    self.untyped.retain(|x| *x != rid);
                    if self.untyped.is_empty() {
                        let id = self.b.id();
                        self.untyped.push(id);
                        self.all_ids.push(id);
                    }
                }
                if inst.is("TypeInt") || inst.is("TypeFloat") {
                    let w = match inst.ops.first() {
                        Some(MOp::W(_, w)) => *w,
                        _ => 0,
                    };
                    let float = inst.is("TypeFloat");
                    match (float, w) {
                        (false, 8) | (false, 16) | (false, 32) | (true, 16) | (true, 32) => self.one_word_types.push(rid),
                        (_, 64) => self.two_word_types.push(rid),
                        _ => {}
                    }
                }
            }
        }
        rep
    }

    /// Conjunction hot spots: nudge the grammar-directed arguments of a few methods towards values that
    /// relate to what the history already contains (same names, ids of functions / structs / constants).
    /// `want.ops` and `groups` are kept in sync (ops = flattened groups).
    fn bias_arguments(&self, name: &str, seed: u64, want: &mut MInst, groups: &mut [crate::producer::Group]) {
        let s = snap();
        let pick = |v: &Vec<u32>, k: u64| v[(k as usize) % v.len()];
        let mut touched = false;
        let set_word = |groups: &mut [crate::producer::Group], gi: usize, val: u32| {
            if let Some(g) = groups.get_mut(gi) {
                if let Some(item) = g.items.first_mut() {
                    if let Some(MOp::W(_, v)) = item.first_mut() {
                        *v = val;
                        return true;
                    }
                }
            }
            false
        };
        let set_str = |groups: &mut [crate::producer::Group], gi: usize, val: &str| {
            if let Some(g) = groups.get_mut(gi) {
                if let Some(item) = g.items.first_mut() {
                    if let Some(MOp::S(v)) = item.first_mut() {
                        *v = val.to_string();
                        return true;
                    }
                }
            }
            false
        };
        let names = ["main", "f", "main", "g"];
        // enumerant-pair sweep: the seed names the enumerant outright (index into the declared numbers) and the target is
        // fixed, so that two consecutive calls put a chosen PAIR of modes / decorations on one id
        if seed >> 48 == PAIR_MARK && matches!(name, "execution_mode" | "execution_mode_id" | "decorate" | "decorate_id") && groups.len() >= 2 {
            let k = groups[1].kind;
            if let Some(e) = s.enums.get(&k) {
                let number = e.numbers[(seed & 0xFFFF) as usize % e.numbers.len()];
                let target = self.function_ids.first().or(self.type_ids.first()).or(self.all_ids.first()).cloned();
                let mut item = vec![MOp::W(k, number)];
                let mut ok = target.is_some();
                for (pi, pk) in s.params_of(k, number).into_iter().enumerate() {
                    use crate::snapshot::Cat;
                    match s.cat(pk) {
                        Cat::Id => item.push(MOp::W(pk, self.all_ids[(pi + (seed >> 16) as usize) % self.all_ids.len().max(1)])),
                        Cat::LitInt | Cat::LitFloat => item.push(MOp::W(s.k_lit32, 1 + pi as u32)),
                        Cat::LitString => item.push(MOp::S("s".into())),
                        Cat::ValueEnum if s.params_of(pk, s.enums[&pk].numbers[0]).is_empty() => item.push(MOp::W(pk, s.enums[&pk].numbers[0])),
                        Cat::Mask => item.push(MOp::W(pk, 0)),
                        _ => ok = false,
                    }
                }
                if ok && !self.all_ids.is_empty() {
                    set_word(groups, 0, target.unwrap());
                    groups[1].items = vec![item];
                    for g in groups[2..].iter_mut() {
                        g.items.clear();
                    }
                    want.ops = groups.iter().flat_map(|g| g.items.iter().flatten().cloned()).collect();
                }
            }
            return;
        }
        // annotations aimed at the function being built (the open one is the last): behaviour of the structural
        // calls must not depend on them
        if seed % 4 == 1 && !self.function_ids.is_empty() && matches!(name, "decorate" | "decorate_id" | "decorate_string" | "execution_mode" | "execution_mode_id" | "name") {
            touched |= set_word(groups, 0, *self.function_ids.last().unwrap());
            if name == "decorate" && (seed / 4) % 2 == 0 {
                let k = s.kind("Decoration");
                let k_lt = s.kind("LinkageType");
                let la = s.enums[&k].values.iter().find(|(_, n)| n.as_str() == "LinkageAttributes").map(|(v, _)| *v);
                if let (Some(la), Some(g)) = (la, groups.get_mut(1)) {
                    let lt = s.enums[&k_lt].numbers[(seed / 8) as usize % s.enums[&k_lt].numbers.len()];
                    g.items = vec![vec![MOp::W(k, la), MOp::S(names[(seed / 16 % 4) as usize].to_string()), MOp::W(k_lt, lt)]];
                    touched = true;
                }
            }
            if touched {
                want.ops = groups.iter().flat_map(|g| g.items.iter().flatten().cloned()).collect();
            }
            return;
        }
        match name {
            // names that select_function_by_name looks for, attached to real functions
            "entry_point" => {
                if seed % 2 == 0 && !self.function_ids.is_empty() {
                    touched |= set_word(groups, 1, pick(&self.function_ids, seed / 2));
                }
                if seed % 3 != 0 {
                    touched |= set_str(groups, 2, names[(seed / 3 % 4) as usize]);
                }
            }
            "name" => {
                if seed % 2 == 0 && !self.function_ids.is_empty() {
                    touched |= set_word(groups, 0, pick(&self.function_ids, seed / 2));
                }
                if seed % 3 != 0 {
                    touched |= set_str(groups, 1, names[(seed / 3 % 4) as usize]);
                }
            }
            // decorations of a type that an identical request may later want to deduplicate against
            "decorate" => {
                if seed % 2 == 0 && !self.type_ids.is_empty() {
                    touched |= set_word(groups, 0, *self.type_ids.last().unwrap());
                }
                if seed % 3 == 0 {
                    let k = s.kind("Decoration");
                    let block = s.enums[&k].values.iter().find(|(_, n)| n.as_str() == "Block" || n.as_str() == "BufferBlock").map(|(v, _)| *v);
                    if let (Some(v), Some(g)) = (block, groups.get_mut(1)) {
                        if let Some(item) = g.items.first_mut() {
                            item.truncate(1);
                            item[0] = MOp::W(k, if seed % 2 == 0 { v } else { v + 1 });
                            touched = true;
                        }
                    }
                }
            }
            // recursive types: forward pointer to a reserved id, struct containing it, pointer to that struct
            "type_forward_pointer" => {
                if !self.reserved.is_empty() && seed % 2 == 0 {
                    touched |= set_word(groups, 0, self.reserved[0]);
                }
                touched |= set_word(groups, 1, [7u32, 2, 12, 7, 2, 12, 5349, 6, 9][(seed % 9) as usize]); // Function / Uniform / StorageBuffer / ...
            }
            "type_struct" | "type_struct_id" => {
                if let Some(g) = groups.get_mut(0) {
                    if seed % 4 != 0 {
                        // members = a stable prefix of the declared types, so that equal requests recur
                        let k = (seed % 3) as usize;
                        g.items = self.type_ids.iter().take(k).map(|id| vec![MOp::W(s.k_idref, *id)]).collect();
                        touched = true;
                    }
                    if !self.reserved.is_empty() && seed % 5 == 0 {
                        g.items.push(vec![MOp::W(s.k_idref, self.reserved[0])]);
                        touched = true;
                    }
                }
            }
            "type_pointer" => {
                // Function / Uniform / StorageBuffer mostly; PhysicalStorageBuffer, Private, PushConstant too
                touched |= set_word(groups, 0, [7u32, 2, 12, 7, 2, 12, 5349, 6, 9][(seed % 9) as usize]);
                if !self.struct_ids.is_empty() && seed % 2 == 0 {
                    touched |= set_word(groups, 1, *self.struct_ids.last().unwrap());
                }
            }
            // arrays whose lengths are (possibly different) constants of equal value
            "constant_bit32" | "spec_constant_bit32" => {
                touched |= set_word(groups, 0, (seed % 5) as u32 + 1);
                if let Some(t) = self.one_word_types.first() {
                    if seed % 4 != 0 {
                        want.rtype = Some(*t);
                    }
                }
            }
            "type_array" | "type_array_id" => {
                if !self.constants.is_empty() && seed % 4 != 0 {
                    let (id, _, _) = self.constants[(seed / 4) as usize % self.constants.len()];
                    touched |= set_word(groups, 1, id);
                    if !self.type_ids.is_empty() {
                        touched |= set_word(groups, 0, self.type_ids[0]);
                    }
                }
            }
            _ => {}
        }
        if touched {
            want.ops = groups.iter().flat_map(|g| g.items.iter().flatten().cloned()).collect();
        }
    }

    /// Near-repeat lane: a third of the calls of a method that was called before re-issue the remembered
    /// request, identical or with exactly one operand changed (another enumerant, another id, literal +-1,
    /// an optional operand added / removed, a variadic operand appended / dropped).  Deduplication, "same
    /// request" and "differs in one operand" conjunctions become common instead of astronomically rare.
    fn near_repeat(&mut self, name: &'static str, seed: u64, want: &mut MInst, groups: &mut Vec<crate::producer::Group>) {
        use crate::snapshot::{Cat, Quant};
        let s = snap();
        let remembered: Vec<usize> = self.recent_calls.iter().enumerate().filter(|(_, (n, _, _))| *n == name).map(|(i, _)| i).collect();
        if seed % 3 == 1 && !remembered.is_empty() && seed >> 48 != PAIR_MARK {
            // sub-choices from a mix of the seed (argument seeds are often tiny numbers)
            let hsh = (seed ^ 0x5bd1_e995).wrapping_mul(0x9E37_79B9_7F4A_7C15) >> 7;
            let (_, rtype, gs) = self.recent_calls[remembered[(hsh >> 40) as usize % remembered.len()]].clone();
            *groups = gs;
            want.rtype = rtype;
            let mode = hsh % 4;
            let seed = hsh >> 2;
            // instructions with context-dependent literals keep their arguments: another selector / type id would
            // change literal widths, which is the caller's obligation (C06 quantifies over well-formed requests)
            let ctx_dependent = groups.iter().any(|g| matches!(s.cat(g.kind), Cat::LitCtx | Cat::PairLitId | Cat::LitSpecOp));
            if mode != 0 && !groups.is_empty() && !ctx_dependent {
                // prefer an optional / variadic group when mode == 1
                let cand: Vec<usize> = (0..groups.len()).filter(|i| mode != 1 || groups[*i].quant != Quant::One).collect();
                let gi = if cand.is_empty() { (seed / 11) as usize % groups.len() } else { cand[(seed / 11) as usize % cand.len()] };
                let k = groups[gi].kind;
                let simple_item = |sd: u64, me: &Drv| -> Option<Vec<MOp>> {
                    match s.cat(k) {
                        Cat::ValueEnum => {
                            let nums: Vec<u32> = s.enums[&k].numbers.iter().copied().filter(|n| s.params_of(k, *n).is_empty()).collect();
                            if nums.is_empty() { None } else { Some(vec![MOp::W(k, nums[sd as usize % nums.len().min(4 + (sd % 7) as usize)])]) }
                        }
                        Cat::Id => {
                            let pool = if me.type_ids.is_empty() { &me.all_ids } else { &me.type_ids };
                            if pool.is_empty() { None } else { Some(vec![MOp::W(k, pool[sd as usize % pool.len()])]) }
                        }
                        Cat::LitInt => Some(vec![MOp::W(s.k_lit32, (sd % 3) as u32)]),
                        _ => None,
                    }
                };
                let gq = groups[gi].quant;
                let g = &mut groups[gi];
                match gq {
                    Quant::One => {
                        if let Some(item) = g.items.first_mut() {
                            match item.first().cloned() {
                                Some(MOp::W(kk, v)) if s.cat(kk) == Cat::LitInt => item[0] = MOp::W(kk, if seed % 2 == 0 { v.wrapping_add(1) } else { v ^ 1 }),
                                Some(MOp::W(..)) => {
                                    if let Some(ni) = simple_item(seed / 13, self) {
                                        *item = ni;
                                    }
                                }
                                _ => {}
                            }
                        }
                    }
                    _ => {
                        if g.items.is_empty() || (g.quant == Quant::ZeroOrMore && seed % 2 == 0) {
                            // an operand may only be added if every earlier optional operand is present and nothing follows
                            let earlier_present = groups[..gi].iter().all(|e| e.quant == Quant::One || !e.items.is_empty());
                            let later_absent = groups[gi + 1..].iter().all(|e| e.items.is_empty());
                            if earlier_present && later_absent {
                                if let Some(ni) = simple_item(seed / 13, self) {
                                    groups[gi].items.push(ni);
                                }
                            }
                        } else {
                            groups[gi].items.pop();
                            if groups[gi].items.is_empty() {
                                // absent optional operand: everything after it is absent too
                                for e in groups[gi + 1..].iter_mut() {
                                    e.items.clear();
                                }
                            }
                        }
                    }
                }
            }
            want.ops = groups.iter().flat_map(|g| g.items.iter().flatten().cloned()).collect();
        }
        self.recent_calls.push((name, want.rtype, groups.clone()));
        if self.recent_calls.len() > 12 {
            self.recent_calls.remove(0);
        }
    }

    /// an id to be passed as an explicit result id: one reserved earlier (if any, half of the time)
    /// or a fresh one from the builder
    fn fresh_untracked(&mut self) -> u32 {
        if !self.reserved.is_empty() && (self.all_ids.len() + self.reserved.len()) % 2 == 0 {
            return self.reserved.remove(0);
        }
        let id = self.b.id();
        self.all_ids.push(id);
        id
    }
}

pub fn empty_block_model() -> MBlock {
    MBlock::default()
}

pub fn empty_function_model() -> MFunction {
    MFunction::default()
}
