//! Observation of a real dr::Module in model terms, and comparison helpers.

use crate::layout::{MBlock, MFunction, MModule, SECTION_NAMES};
use crate::model::*;
use rspirv::dr;

pub fn module_to_model(m: &dr::Module) -> MModule {
    let conv = |v: &Vec<dr::Instruction>| v.iter().map(to_model).collect::<Vec<_>>();
    let mut out = MModule::default();
    out.sections[0] = conv(&m.capabilities);
    out.sections[1] = conv(&m.extensions);
    out.sections[2] = conv(&m.ext_inst_imports);
    out.sections[3] = m.memory_model.iter().map(to_model).collect();
    out.sections[4] = conv(&m.entry_points);
    out.sections[5] = conv(&m.execution_modes);
    out.sections[6] = conv(&m.debug_string_source);
    out.sections[7] = conv(&m.debug_names);
    out.sections[8] = conv(&m.debug_module_processed);
    out.sections[9] = conv(&m.annotations);
    out.sections[10] = conv(&m.types_global_values);
    for f in &m.functions {
        out.functions.push(MFunction {
            def: f.def.as_ref().map(to_model),
            params: conv(&f.parameters),
            blocks: f
                .blocks
                .iter()
                .map(|b| MBlock {
                    label: b.label.as_ref().map(to_model),
                    insts: conv(&b.instructions),
                })
                .collect(),
            end: f.end.as_ref().map(to_model),
        });
    }
    out
}

/// instructions in logical-layout (= assembly) order
pub fn flatten(m: &MModule) -> Vec<MInst> {
    let mut v = vec![];
    for s in &m.sections {
        v.extend(s.iter().cloned());
    }
    for f in &m.functions {
        v.extend(f.def.iter().cloned());
        v.extend(f.params.iter().cloned());
        for b in &f.blocks {
            v.extend(b.label.iter().cloned());
            v.extend(b.insts.iter().cloned());
        }
        v.extend(f.end.iter().cloned());
    }
    v
}

fn show_list(v: &[MInst]) -> String {
    v.iter().map(show).collect::<Vec<_>>().join("; ")
}

/// First difference between the expected and the real module, as (where, detail).
/// `skip_memory_model`: do not compare section 3.
pub fn diff_modules(expect: &MModule, real: &MModule, skip_memory_model: bool) -> Option<(String, String)> {
    for s in 0..11 {
        if s == 3 && skip_memory_model {
            continue;
        }
        if expect.sections[s] != real.sections[s] {
            return Some((
                format!("section={}", SECTION_NAMES[s]),
                format!("section {} holds [{}], expected [{}]", SECTION_NAMES[s], show_list(&real.sections[s]), show_list(&expect.sections[s])),
            ));
        }
    }
    if expect.functions.len() != real.functions.len() {
        return Some(("functions".into(), format!("{} functions, expected {}", real.functions.len(), expect.functions.len())));
    }
    for (i, (e, r)) in expect.functions.iter().zip(real.functions.iter()).enumerate() {
        if e.def != r.def {
            return Some(("function.def".into(), format!("function {} is defined by {:?}, expected {:?}", i, r.def.as_ref().map(show), e.def.as_ref().map(show))));
        }
        if e.end != r.end {
            return Some(("function.end".into(), format!("function {} ends with {:?}, expected {:?}", i, r.end.as_ref().map(show), e.end.as_ref().map(show))));
        }
        if e.params != r.params {
            return Some(("function.parameters".into(), format!("function {} has parameters [{}], expected [{}]", i, show_list(&r.params), show_list(&e.params))));
        }
        if e.blocks.len() != r.blocks.len() {
            return Some(("function.blocks".into(), format!("function {} has {} blocks, expected {}", i, r.blocks.len(), e.blocks.len())));
        }
        for (j, (eb, rb)) in e.blocks.iter().zip(r.blocks.iter()).enumerate() {
            if eb.label != rb.label {
                return Some(("block.label".into(), format!("function {} block {} has label {:?}, expected {:?}", i, j, rb.label.as_ref().map(show), eb.label.as_ref().map(show))));
            }
            if eb.insts != rb.insts {
                return Some(("block.instructions".into(), format!("function {} block {} holds [{}], expected [{}]", i, j, show_list(&rb.insts), show_list(&eb.insts))));
            }
        }
    }
    None
}

/// Compare two real modules field by field (dr::Module has no PartialEq).
pub fn real_modules_equal(a: &dr::Module, b: &dr::Module) -> Option<String> {
    macro_rules! sec {
        ($f:ident) => {
            if a.$f != b.$f {
                return Some(format!("field {} differs", stringify!($f)));
            }
        };
    }
    sec!(capabilities);
    sec!(extensions);
    sec!(ext_inst_imports);
    sec!(memory_model);
    sec!(entry_points);
    sec!(execution_modes);
    sec!(debug_string_source);
    sec!(debug_names);
    sec!(debug_module_processed);
    sec!(annotations);
    sec!(types_global_values);
    if a.functions.len() != b.functions.len() {
        return Some("number of functions differs".into());
    }
    for (i, (f, g)) in a.functions.iter().zip(b.functions.iter()).enumerate() {
        if f.def != g.def || f.end != g.end || f.parameters != g.parameters {
            return Some(format!("function {} def/end/parameters differ", i));
        }
        if f.blocks.len() != g.blocks.len() {
            return Some(format!("function {} block count differs", i));
        }
        for (j, (x, y)) in f.blocks.iter().zip(g.blocks.iter()).enumerate() {
            if x.label != y.label || x.instructions != y.instructions {
                return Some(format!("function {} block {} differs", i, j));
            }
        }
    }
    None
}
