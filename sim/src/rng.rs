//! The only source of randomness in the simulator: SplitMix64 -> xoshiro256**.
//! One integer (VERIF_SEED) decides everything; run i of property P uses
//! `mix(VERIF_SEED, fnv(P), i)`.  The PRNG is used ONLY by trace generators;
//! executing, shrinking, replaying and logging never draw from it.

#[derive(Clone)]
pub struct Rng {
    s: [u64; 4],
}

fn splitmix(x: &mut u64) -> u64 {
    *x = x.wrapping_add(0x9E37_79B9_7F4A_7C15);
    let mut z = *x;
    z = (z ^ (z >> 30)).wrapping_mul(0xBF58_476D_1CE4_E5B9);
    z = (z ^ (z >> 27)).wrapping_mul(0x94D0_49BB_1331_11EB);
    z ^ (z >> 31)
}

pub fn fnv(s: &str) -> u64 {
    let mut h: u64 = 0xcbf2_9ce4_8422_2325;
    for b in s.bytes() {
        h ^= b as u64;
        h = h.wrapping_mul(0x0000_0100_0000_01B3);
    }
    h
}

pub fn fnv_bytes(h0: u64, bytes: &[u8]) -> u64 {
    let mut h = h0;
    for b in bytes {
        h ^= *b as u64;
        h = h.wrapping_mul(0x0000_0100_0000_01B3);
    }
    h
}

pub fn mix(seed: u64, prop: u64, run: u64) -> u64 {
    let mut x = seed ^ prop.rotate_left(17) ^ run.wrapping_mul(0xD6E8_FEB8_6659_FD93);
    let a = splitmix(&mut x);
    let b = splitmix(&mut x);
    a ^ b.rotate_left(32)
}

impl Rng {
    pub fn new(seed: u64) -> Rng {
        let mut x = seed;
        let s = [
            splitmix(&mut x),
            splitmix(&mut x),
            splitmix(&mut x),
            splitmix(&mut x),
        ];
        Rng { s }
    }
    pub fn next(&mut self) -> u64 {
        let r = self.s[1].wrapping_mul(5).rotate_left(7).wrapping_mul(9);
        let t = self.s[1] << 17;
        self.s[2] ^= self.s[0];
        self.s[3] ^= self.s[1];
        self.s[1] ^= self.s[2];
        self.s[0] ^= self.s[3];
        self.s[2] ^= t;
        self.s[3] = self.s[3].rotate_left(45);
        r
    }
    pub fn u32(&mut self) -> u32 {
        (self.next() >> 32) as u32
    }
    /// uniform in 0..n (n>0)
    pub fn below(&mut self, n: u64) -> u64 {
        debug_assert!(n > 0);
        // multiply-shift; bias is irrelevant for workload generation
        (((self.next() >> 32) as u128 * n as u128) >> 32) as u64
    }
    pub fn usize_below(&mut self, n: usize) -> usize {
        self.below(n as u64) as usize
    }
    /// uniform in lo..=hi
    pub fn range(&mut self, lo: u64, hi: u64) -> u64 {
        lo + self.below(hi - lo + 1)
    }
    pub fn chance(&mut self, num: u64, den: u64) -> bool {
        self.below(den) < num
    }
    pub fn pick<'a, T>(&mut self, v: &'a [T]) -> &'a T {
        &v[self.usize_below(v.len())]
    }
    pub fn shuffle<T>(&mut self, v: &mut [T]) {
        for i in (1..v.len()).rev() {
            let j = self.usize_below(i + 1);
            v.swap(i, j);
        }
    }
    /// an "interesting" u32: small, boundary or random
    pub fn word(&mut self) -> u32 {
        match self.below(8) {
            0 => 0,
            1 => 1,
            2 => 0xFFFF_FFFF,
            3 => self.below(256) as u32,
            4 => 0x8000_0000,
            _ => self.u32(),
        }
    }
}
