//! The byte medium ("the disk") between producer and consumer and its fault
//! catalogue (DESIGN §3.5).  Faults are concrete values stored in the trace;
//! applying them is a pure function.  Out-of-range indices make a fault a
//! no-op, so traces stay executable while the shrinker edits them.

use crate::layout::{self, Lc};
use crate::model::*;
use crate::rng::Rng;
use crate::snapshot::{snap, Cat};
use serde::{Deserialize, Serialize};

#[derive(Clone, Debug, Serialize, Deserialize, PartialEq)]
pub enum Fault {
    // ---- frame level (instruction boundaries known to the producer) ----
    /// message loss
    Drop(usize),
    /// message duplication
    Dup(usize),
    /// message reordering
    Swap(usize, usize),
    Move(usize, usize),
    /// overwrite the word count of instruction j
    Wc(usize, u16),
    /// overwrite the opcode of instruction j
    Opcode(usize, u16),
    /// overwrite word k (>=1) of instruction j (enumerant / mask / id corruption)
    InstWord(usize, usize, u32),
    /// remove word k (>=1) of instruction j and patch the word count
    OperandDrop(usize, usize),
    /// insert a word before word k (>=1, == len appends) of instruction j and patch the word count
    OperandExtra(usize, usize, u32),
    /// overwrite the NUL padding bytes of the first string in instruction j
    Unterminate(usize),
    /// overwrite byte b (index modulo the string length) of the first string in instruction j
    StrByte(usize, usize, u8),
    // ---- word / byte level on the flattened stream ----
    /// overwrite word i of the whole binary
    Word(usize, u32),
    /// flip one bit
    Flip(usize),
    /// insert garbage words at word position
    Garbage(usize, Vec<u32>),
    ByteSwapAll,
    /// keep only the first k bytes (torn / short write, EOF)
    Trunc(usize),
}

impl Fault {
    pub fn kind(&self) -> &'static str {
        match self {
            Fault::Drop(_) => "fault.drop",
            Fault::Dup(_) => "fault.dup",
            Fault::Swap(..) => "fault.swap",
            Fault::Move(..) => "fault.move",
            Fault::Wc(..) => "fault.wc",
            Fault::Opcode(..) => "fault.opcode",
            Fault::InstWord(..) => "fault.inst_word",
            Fault::OperandDrop(..) => "fault.operand_drop",
            Fault::OperandExtra(..) => "fault.operand_extra",
            Fault::Unterminate(_) => "fault.unterminate",
            Fault::StrByte(..) => "fault.str_byte",
            Fault::Word(..) => "fault.word",
            Fault::Flip(_) => "fault.flip",
            Fault::Garbage(..) => "fault.garbage",
            Fault::ByteSwapAll => "fault.byteswap",
            Fault::Trunc(_) => "fault.trunc",
        }
    }
    pub fn code(&self) -> u32 {
        match self {
            Fault::Drop(_) => 1,
            Fault::Dup(_) => 2,
            Fault::Swap(..) => 3,
            Fault::Move(..) => 4,
            Fault::Wc(..) => 5,
            Fault::Opcode(..) => 6,
            Fault::InstWord(..) => 7,
            Fault::OperandDrop(..) => 8,
            Fault::OperandExtra(..) => 9,
            Fault::Unterminate(_) => 10,
            Fault::StrByte(..) => 10,
            Fault::Word(..) => 11,
            Fault::Flip(_) => 12,
            Fault::Garbage(..) => 13,
            Fault::ByteSwapAll => 14,
            Fault::Trunc(_) => 15,
        }
    }
}

pub const FAULT_KINDS: &[&str] = &[
    "drop", "dup", "swap", "move", "wc", "opcode", "inst_word", "operand_drop", "operand_extra", "unterminate", "str_byte", "word", "flip", "garbage", "byteswap", "trunc",
];

/// Apply the faults in order; returns the bytes the consumer is given and the
/// list of faults that actually fired (changed something).
pub fn apply(stream: &Stream, faults: &[Fault]) -> (Vec<u8>, Vec<&'static str>) {
    let mut fired = vec![];
    let header = vec![MAGIC, stream.header.version, stream.header.generator, stream.header.bound, stream.header.schema];
    let mut frames: Vec<Vec<u32>> = stream
        .insts
        .iter()
        .map(|i| {
            let mut v = vec![];
            encode_inst(i, &mut v);
            v
        })
        .collect();
    let mut flat: Option<Vec<u8>> = None;
    let flatten = |frames: &Vec<Vec<u32>>| {
        let mut w = header.clone();
        for f in frames {
            w.extend_from_slice(f);
        }
        words_to_bytes(&w)
    };
    for f in faults {
        let mut did = false;
        match f {
            Fault::Drop(j) if flat.is_none() => {
                if *j < frames.len() {
                    frames.remove(*j);
                    did = true;
                }
            }
            Fault::Dup(j) if flat.is_none() => {
                if *j < frames.len() {
                    let c = frames[*j].clone();
                    frames.insert(*j + 1, c);
                    did = true;
                }
            }
            Fault::Swap(a, b) if flat.is_none() => {
                if *a < frames.len() && *b < frames.len() && a != b {
                    frames.swap(*a, *b);
                    did = true;
                }
            }
            Fault::Move(a, b) if flat.is_none() => {
                if *a < frames.len() && *b < frames.len() && a != b {
                    let x = frames.remove(*a);
                    frames.insert(*b, x);
                    did = true;
                }
            }
            Fault::Wc(j, wc) if flat.is_none() => {
                if let Some(fr) = frames.get_mut(*j) {
                    let new = (fr[0] & 0xffff) | ((*wc as u32) << 16);
                    did = new != fr[0];
                    fr[0] = new;
                }
            }
            Fault::Opcode(j, op) if flat.is_none() => {
                if let Some(fr) = frames.get_mut(*j) {
                    let new = (fr[0] & 0xffff_0000) | *op as u32;
                    did = new != fr[0];
                    fr[0] = new;
                }
            }
            Fault::InstWord(j, k, v) if flat.is_none() => {
                if let Some(fr) = frames.get_mut(*j) {
                    if *k >= 1 && *k < fr.len() {
                        did = fr[*k] != *v;
                        fr[*k] = *v;
                    }
                }
            }
            Fault::OperandDrop(j, k) if flat.is_none() => {
                if let Some(fr) = frames.get_mut(*j) {
                    if *k >= 1 && *k < fr.len() {
                        fr.remove(*k);
                        let wc = (fr[0] >> 16).wrapping_sub(1) & 0xffff;
                        fr[0] = (fr[0] & 0xffff) | (wc << 16);
                        did = true;
                    }
                }
            }
            Fault::OperandExtra(j, k, v) if flat.is_none() => {
                if let Some(fr) = frames.get_mut(*j) {
                    if *k >= 1 && *k <= fr.len() {
                        fr.insert(*k, *v);
                        let wc = ((fr[0] >> 16) + 1) & 0xffff;
                        fr[0] = (fr[0] & 0xffff) | (wc << 16);
                        did = true;
                    }
                }
            }
            Fault::Unterminate(j) if flat.is_none() => {
                if let (Some(fr), Some(inst)) = (frames.get_mut(*j), stream.insts.get(*j)) {
                    // locate the first string operand of the *model* instruction
                    let mut w = 1 + inst.rtype.is_some() as usize + inst.rid.is_some() as usize;
                    for o in &inst.ops {
                        match o {
                            MOp::S(st) => {
                                let last = w + string_words(st) - 1;
                                if last < fr.len() {
                                    let mut b = fr[last].to_le_bytes();
                                    for x in b.iter_mut() {
                                        if *x == 0 {
                                            *x = b'Z';
                                        }
                                    }
                                    fr[last] = u32::from_le_bytes(b);
                                    did = true;
                                }
                                break;
                            }
                            MOp::L64(_) => w += 2,
                            MOp::W(..) => w += 1,
                        }
                    }
                }
            }
            Fault::StrByte(j, b, v) if flat.is_none() => {
                if let (Some(fr), Some(inst)) = (frames.get_mut(*j), stream.insts.get(*j)) {
                    let mut w = 1 + inst.rtype.is_some() as usize + inst.rid.is_some() as usize;
                    for o in &inst.ops {
                        match o {
                            MOp::S(st) => {
                                if !st.is_empty() {
                                    let b = *b % st.len();
                                    let (wi, sh) = (w + b / 4, 8 * (b % 4) as u32);
                                    if wi < fr.len() {
                                        let new = (fr[wi] & !(0xFF << sh)) | ((*v as u32) << sh);
                                        did = new != fr[wi];
                                        fr[wi] = new;
                                    }
                                }
                                break;
                            }
                            MOp::L64(_) => w += 2,
                            MOp::W(..) => w += 1,
                        }
                    }
                }
            }
            // byte/word level: flatten on first use; later frame-level faults are ignored
            Fault::Word(i, v) => {
                let b = flat.get_or_insert_with(|| flatten(&frames));
                if *i * 4 + 4 <= b.len() {
                    let old: [u8; 4] = b[*i * 4..*i * 4 + 4].try_into().unwrap();
                    b[*i * 4..*i * 4 + 4].copy_from_slice(&v.to_le_bytes());
                    did = old != v.to_le_bytes();
                }
            }
            Fault::Flip(bit) => {
                let b = flat.get_or_insert_with(|| flatten(&frames));
                if *bit / 8 < b.len() {
                    b[*bit / 8] ^= 1 << (*bit % 8);
                    did = true;
                }
            }
            Fault::Garbage(pos, words) => {
                let b = flat.get_or_insert_with(|| flatten(&frames));
                if *pos * 4 <= b.len() && !words.is_empty() {
                    let g = words_to_bytes(words);
                    let at = *pos * 4;
                    b.splice(at..at, g);
                    did = true;
                }
            }
            Fault::ByteSwapAll => {
                let b = flat.get_or_insert_with(|| flatten(&frames));
                for c in b.chunks_exact_mut(4) {
                    c.reverse();
                }
                did = !b.is_empty();
            }
            Fault::Trunc(k) => {
                let b = flat.get_or_insert_with(|| flatten(&frames));
                if *k < b.len() {
                    b.truncate(*k);
                    did = true;
                }
            }
            _ => {}
        }
        if did {
            fired.push(f.kind());
        }
    }
    let bytes = flat.unwrap_or_else(|| flatten(&frames));
    (bytes, fired)
}

/// Draw 1..=n faults, biased to land on instructions with in-flight decoder state
/// (strings, 64-bit literals, OpSpecConstantOp, OpSwitch, first/last instruction, header).
pub fn gen_faults(rng: &mut Rng, stream: &Stream, n: usize, enabled: u32) -> Vec<Fault> {
    let s = snap();
    let ninst = stream.insts.len();
    let (words, starts) = stream.encode();
    let nwords = words.len();
    let interesting: Vec<usize> = stream
        .insts
        .iter()
        .enumerate()
        .filter(|(_, i)| i.ops.iter().any(|o| matches!(o, MOp::S(_) | MOp::L64(_))) || i.is("SpecConstantOp") || i.is("Switch") || i.is("Constant"))
        .map(|(j, _)| j)
        .collect();
    let pick_inst = |rng: &mut Rng| -> usize {
        if ninst == 0 {
            return 0;
        }
        match rng.below(8) {
            0 => 0,
            1 => ninst - 1,
            2..=4 if !interesting.is_empty() => *rng.pick(&interesting),
            _ => rng.usize_below(ninst),
        }
    };
    let mut out: Vec<Fault> = vec![];
    let mut tries = 0;
    while out.len() < n && tries < 50 {
        tries += 1;
        let code = rng.below(15) as u32 + 1;
        if enabled & (1 << code) == 0 {
            continue;
        }
        let j = pick_inst(rng);
        let ilen = stream.insts.get(j).map(inst_words).unwrap_or(1);
        let f = match code {
            1 => Fault::Drop(j),
            2 => Fault::Dup(j),
            3 => Fault::Swap(j, pick_inst(rng)),
            4 => Fault::Move(j, pick_inst(rng)),
            5 => {
                let wc = ilen as u64;
                let remaining = starts.get(j).map(|st| nwords - st).unwrap_or(1) as u64;
                let v = match rng.below(8) {
                    0 => 0,
                    1 => 1,
                    2 => wc.saturating_sub(1),
                    3 => wc + 1,
                    4 => remaining + rng.below(4),
                    5 => 0xFFFF,
                    6 => remaining,
                    _ => rng.below(0x10000),
                };
                Fault::Wc(j, v.min(0xFFFF) as u16)
            }
            6 => {
                let max_opcode = s.insts.iter().map(|g| g.opcode).max().unwrap_or(0);
                let v = match rng.below(8) {
                    0 => rng.below(0x10000) as u16,
                    1 => 0xFFFF,
                    // boundaries of the opcode space: one past the last declared opcode, opcode 0 (OpNop)
                    2 => max_opcode.wrapping_add(1),
                    3 => 0,
                    4 => {
                        // the neighbour of a declared opcode (usually a hole in the table)
                        let o = s.insts[rng.usize_below(s.insts.len())].opcode;
                        if rng.chance(1, 2) { o.wrapping_add(1) } else { o.wrapping_sub(1) }
                    }
                    _ => s.insts[rng.usize_below(s.insts.len())].opcode,
                };
                Fault::Opcode(j, v)
            }
            7 => {
                // corrupt an operand word: undeclared enumerant / mask bit / edge of a declared range / random
                let k = if ilen > 1 { rng.range(1, ilen as u64 - 1) as usize } else { 1 };
                let inst = stream.insts.get(j);
                let mut v = rng.word();
                // an id used elsewhere in the stream (a collision: an id defined twice, a value typed by itself, ...)
                if rng.chance(1, 3) {
                    let ids: Vec<u32> = stream.insts.iter().flat_map(|i| i.rid.into_iter().chain(i.rtype)).collect();
                    if !ids.is_empty() {
                        v = *rng.pick(&ids);
                    }
                }
                if let Some(inst) = inst {
                    // if the word is an enum/mask operand, aim near its declared values
                    let mut w = 1 + inst.rtype.is_some() as usize + inst.rid.is_some() as usize;
                    for o in &inst.ops {
                        match o {
                            MOp::W(kind, cur) => {
                                if w == k {
                                    match s.cat(*kind) {
                                        Cat::ValueEnum => {
                                            let e = &s.enums[kind];
                                            let base = *rng.pick(&e.numbers);
                                            v = match rng.below(4) {
                                                0 => base.wrapping_add(1),
                                                1 => base.wrapping_sub(1),
                                                2 => *e.numbers.last().unwrap() + 1,
                                                _ => base,
                                            };
                                        }
                                        Cat::Mask => {
                                            let m = &s.masks[kind];
                                            v = match rng.below(3) {
                                                0 => *cur | (1 << rng.below(32)),
                                                1 => m.all,
                                                _ => !m.all,
                                            };
                                        }
                                        _ => {
                                            if s.kind_name(*kind) == "LiteralSpecConstantOpInteger" {
                                                v = match rng.below(6) {
                                                    0 => 0x10000 | *cur,
                                                    1 => s.insts[rng.usize_below(s.insts.len())].opcode as u32,
                                                    2 => 0xFFFF,
                                                    // the nested opcode written like the first word of an instruction: a word
                                                    // count in the high half (exactly / about the words that follow)
                                                    3 => (((ilen - k) as u32) << 16) | *cur,
                                                    4 => ((rng.range(1, 8) as u32) << 16) | *cur,
                                                    _ => rng.below(0x20000) as u32,
                                                };
                                            }
                                        }
                                    }
                                }
                                w += 1;
                            }
                            MOp::L64(_) => w += 2,
                            MOp::S(st) => w += string_words(st),
                        }
                    }
                }
                Fault::InstWord(j, k, v)
            }
            8 => Fault::OperandDrop(j, if ilen > 1 { rng.range(1, ilen as u64 - 1) as usize } else { 1 }),
            9 => {
                // half of the time aim at an instruction without operands (OpNop, OpReturn, OpFunctionEnd, ...): any
                // payload there is surplus by definition
                let bare: Vec<usize> = stream.insts.iter().enumerate().filter(|(_, i)| inst_words(i) == 1).map(|(j, _)| j).collect();
                let j = if !bare.is_empty() && rng.chance(1, 2) { *rng.pick(&bare) } else { j };
                let ilen = stream.insts.get(j).map(inst_words).unwrap_or(1);
                // (a zero word is what padding looks like; all ones what an erased flash cell looks like)
                let v = match rng.below(4) {
                    0 => 0,
                    1 => 0xFFFF_FFFF,
                    _ => rng.word(),
                };
                let at = if rng.chance(1, 2) { ilen } else { rng.range(1, ilen as u64) as usize };
                Fault::OperandExtra(j, at, v)
            }
            10 => {
                let with_str: Vec<usize> = stream.insts.iter().enumerate().filter(|(_, i)| i.ops.iter().any(|o| matches!(o, MOp::S(_)))).map(|(j, _)| j).collect();
                if with_str.is_empty() {
                    continue;
                }
                if rng.chance(1, 2) {
                    Fault::Unterminate(*rng.pick(&with_str))
                } else {
                    Fault::StrByte(*rng.pick(&with_str), rng.usize_below(64), *rng.pick(&[0xFFu8, 0xC0, 0xE2, 0x80, 0xF8, b'\n', 0]))
                }
            }
            11 => {
                let i = match rng.below(8) {
                    0 => 0, // the magic number itself
                    1 => rng.usize_below(5.min(nwords.max(1))),
                    _ => rng.usize_below(nwords.max(1)),
                };
                let old = words.get(i).cloned().unwrap_or(0);
                let v = match rng.below(7) {
                    0 => 0,
                    1 => 1,
                    2 => 0xFFFF_FFFF,
                    3 => rng.u32(),
                    4 => {
                        let g = &s.insts[rng.usize_below(s.insts.len())];
                        (rng.range(1, 6) as u32) << 16 | g.opcode as u32
                    }
                    5 => match rng.below(4) {
                        0 => MAGIC,
                        1 => MAGIC.swap_bytes(),
                        _ => {
                            // any other byte order of the magic number (half-word swapped, rotated, ...)
                            let mut b = MAGIC.to_le_bytes();
                            for k in (1..4).rev() {
                                b.swap(k, rng.usize_below(k + 1));
                            }
                            u32::from_le_bytes(b)
                        }
                    },
                    _ => old | 0xFFFF_0000,
                };
                Fault::Word(i, v)
            }
            12 => Fault::Flip(rng.usize_below((nwords * 32).max(1))),
            13 => {
                let n = rng.range(1, 3) as usize;
                if rng.chance(1, 4) {
                    // zero padding behind the module (alignment / block-size padding of a container format)
                    Fault::Garbage(nwords, vec![0; n])
                } else {
                    let pos = if rng.chance(1, 2) && !starts.is_empty() { *rng.pick(&starts) } else { rng.usize_below(nwords + 1) };
                    Fault::Garbage(pos, (0..n).map(|_| match rng.below(6) { 0 => MAGIC, 1 => 0, _ => rng.word() }).collect())
                }
            }
            14 => {
                if !rng.chance(1, 6) {
                    continue;
                }
                Fault::ByteSwapAll
            }
            _ => {
                let nbytes = nwords * 4;
                let k = match rng.below(4) {
                    0 => rng.usize_below(21.min(nbytes + 1)),
                    1 if !starts.is_empty() => *rng.pick(&starts) * 4 + rng.usize_below(8),
                    _ => rng.usize_below(nbytes + 1),
                };
                Fault::Trunc(k)
            }
        };
        out.push(f);
    }
    // frame-level faults first, then word/byte level (application order requirement)
    out.sort_by_key(|f| f.code() > 10);
    out
}

/// Every fault kind enabled.
pub const ALL_FAULTS: u32 = 0xFFFE;

/// shrink helper: candidate fault lists
pub fn shrink_faults(faults: &[Fault]) -> Vec<Vec<Fault>> {
    let mut out = vec![];
    for i in 0..faults.len() {
        let mut c = faults.to_vec();
        c.remove(i);
        out.push(c);
    }
    out
}

/// Adjust fault indices after instruction `removed` was deleted from the stream.
pub fn reindex_after_remove(faults: &[Fault], removed: usize) -> Vec<Fault> {
    let fix = |j: usize| if j > removed { j - 1 } else { j };
    faults
        .iter()
        .filter_map(|f| {
            Some(match f {
                Fault::Drop(j) if *j == removed => return None,
                Fault::Dup(j) if *j == removed => return None,
                Fault::Wc(j, _) | Fault::Opcode(j, _) | Fault::InstWord(j, _, _) | Fault::OperandDrop(j, _) | Fault::OperandExtra(j, _, _) | Fault::Unterminate(j) | Fault::StrByte(j, _, _)
                    if *j == removed =>
                {
                    return None
                }
                Fault::Drop(j) => Fault::Drop(fix(*j)),
                Fault::Dup(j) => Fault::Dup(fix(*j)),
                Fault::Swap(a, b) => Fault::Swap(fix(*a), fix(*b)),
                Fault::Move(a, b) => Fault::Move(fix(*a), fix(*b)),
                Fault::Wc(j, v) => Fault::Wc(fix(*j), *v),
                Fault::Opcode(j, v) => Fault::Opcode(fix(*j), *v),
                Fault::InstWord(j, k, v) => Fault::InstWord(fix(*j), *k, *v),
                Fault::OperandDrop(j, k) => Fault::OperandDrop(fix(*j), *k),
                Fault::OperandExtra(j, k, v) => Fault::OperandExtra(fix(*j), *k, *v),
                Fault::Unterminate(j) => Fault::Unterminate(fix(*j)),
                Fault::StrByte(j, b, v) => Fault::StrByte(fix(*j), *b, *v),
                other => other.clone(),
            })
        })
        .collect()
}

#[allow(dead_code)]
pub fn is_structural(opcode: u16) -> bool {
    matches!(layout::class_of(opcode), Lc::Function | Lc::FunctionEnd | Lc::Label | Lc::Parameter | Lc::Terminator)
}
