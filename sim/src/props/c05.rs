//! C05 — the loader accepts exactly well-bracketed function/block structure and
//! files every module-level instruction into its section.  Instruction-class
//! histories (a well-formed module's sequence hit by message faults
//! loss/dup/reorder/insert, or short free words over the alphabet) are fed to the
//! real loader through dr::load_words; the reference bracket automaton +
//! section map predicts acceptance, the first structural error and the module.

use crate::acceptor::{accept, Outcome};
use crate::core::*;
use crate::guard::GuardedBuf;
use crate::layout::{self, Automaton, LErr, Lc};
use crate::modcmp::{diff_modules, module_to_model};
use crate::model::*;
use crate::producer::{gen_stream, Gen, ProdCfg};
use crate::rng::Rng;
use crate::snapshot::snap;
use rspirv::binary::ParseState;
use rspirv::dr;
use serde::{Deserialize, Serialize};

#[derive(Clone, Debug, Serialize, Deserialize)]
pub struct Trace {
    pub header: MHeader,
    /// the instruction history fed to the loader (after message faults)
    pub insts: Vec<MInst>,
    /// which message faults were applied at generation time (for the evidence counters)
    pub faults: Vec<String>,
    pub free_word: bool,
}

pub struct C05;

/// letter classes of the alphabet; 0..=10 are the module-level sections
const N_LETTERS: u64 = 21;

fn letter_inst(g: &mut Gen, letter: u64) -> MInst {
    let s = snap();
    let pick = |g: &mut Gen, l: Lc| {
        let pool = layout::opcodes_of(|x| x == l);
        *g.rng.pick(&pool)
    };
    let op = match letter {
        0..=10 => pick(g, Lc::Section(letter as u8)),
        11 => s.op("Function"),
        12 => s.op("FunctionEnd"),
        13 => s.op("FunctionParameter"),
        14 => s.op("Label"),
        15 => pick(g, Lc::Terminator),
        16 => s.op("Variable"),
        17 => s.op("Undef"),
        18 => s.op("Line"),
        19 => s.op("NoLine"),
        _ => pick(g, Lc::Block),
    };
    g.inst(op)
}

fn err_name(e: &dr::Error) -> &'static str {
    match e {
        dr::Error::NestedFunction => "NestedFunction",
        dr::Error::UnclosedFunction => "UnclosedFunction",
        dr::Error::MismatchedFunctionEnd => "MismatchedFunctionEnd",
        dr::Error::DetachedFunctionParameter => "DetachedFunctionParameter",
        dr::Error::DetachedBlock => "DetachedBlock",
        dr::Error::NestedBlock => "NestedBlock",
        dr::Error::UnclosedBlock => "UnclosedBlock",
        dr::Error::MismatchedTerminator => "MismatchedTerminator",
        dr::Error::DetachedInstruction(_) => "DetachedInstruction",
        _ => "other",
    }
}

impl Property for C05 {
    type Trace = Trace;
    const ID: &'static str = "C05";

    fn runs(tier: Tier) -> u64 {
        match tier {
            Tier::Quick => 600_000,
            Tier::Thorough => 60_000_000,
        }
    }

    fn generate(rng: &mut Rng, _tier: Tier) -> Trace {
        let free = rng.chance(1, 3);
        let cfg = ProdCfg {
            max_insts: rng.range(2, 20) as usize,
            allow_other: false,
            max_funcs: 2,
            exotic_strings: 1,
            spec_ops: true,
            ctx_dependent: true,
            max_variadic: 2,
            giant: false,
        };
        if free {
            let mut g = Gen::new(rng, cfg);
            let n = g.rng.range(1, 8);
            let mut insts = vec![];
            // bias toward structural letters so that bracket transitions are dense
            for _ in 0..n {
                let l = if g.rng.chance(1, 2) { g.rng.range(11, 20) } else { g.rng.below(N_LETTERS) };
                insts.push(letter_inst(&mut g, l));
            }
            let bound = g.next_id + 1;
            let generator_word = match g.rng.below(3) {
                0 => 0,
                1 => *g.rng.pick(&[0x0006_000eu32, 0x000f_0000, 0x0008_000b, 0xFFFF_FFFF]),
                _ => (g.rng.below(46) as u32) << 16 | g.rng.below(32) as u32,
            };
            return Trace {
                header: MHeader {
                    version: 0x0001_0500,
                    generator: generator_word,
                    bound,
                    schema: 0,
                },
                insts,
                faults: vec![],
                free_word: true,
            };
        }
        let mut cfg2 = cfg.clone();
        cfg2.max_funcs = 2;
        let stream = gen_stream(rng, cfg2);
        let mut insts = stream.insts.clone();
        let mut faults = vec![];
        let nf = if rng.chance(1, 5) { 0 } else { rng.range(1, 3) };
        // faults are biased to land near bracket boundaries: structural instructions
        let structural = |insts: &Vec<MInst>, rng: &mut Rng| -> usize {
            let idx: Vec<usize> = insts
                .iter()
                .enumerate()
                .filter(|(_, i)| matches!(layout::class_of(i.opcode), Lc::Function | Lc::FunctionEnd | Lc::Label | Lc::Terminator | Lc::Parameter | Lc::Variable | Lc::Undef))
                .map(|(k, _)| k)
                .collect();
            if !idx.is_empty() && rng.chance(2, 3) {
                *rng.pick(&idx)
            } else {
                rng.usize_below(insts.len().max(1))
            }
        };
        for _ in 0..nf {
            if insts.is_empty() {
                break;
            }
            match rng.below(5) {
                0 => {
                    let j = structural(&insts, rng);
                    insts.remove(j);
                    faults.push("fault.drop".to_string());
                }
                1 => {
                    let j = structural(&insts, rng);
                    let c = insts[j].clone();
                    insts.insert(j + 1, c);
                    faults.push("fault.dup".to_string());
                }
                2 => {
                    let a = structural(&insts, rng);
                    let b = rng.usize_below(insts.len());
                    insts.swap(a, b);
                    faults.push("fault.swap".to_string());
                }
                3 => {
                    let a = structural(&insts, rng);
                    let x = insts.remove(a);
                    let b = rng.usize_below(insts.len() + 1);
                    insts.insert(b, x);
                    faults.push("fault.move".to_string());
                }
                _ => {
                    let mut g = Gen::new(rng, cfg.clone());
                    g.next_id = stream.header.bound + 10 + faults.len() as u32 * 10;
                    let l = if g.rng.chance(1, 2) { g.rng.range(11, 20) } else { g.rng.below(N_LETTERS) };
                    let x = letter_inst(&mut g, l);
                    let at = g.rng.usize_below(insts.len() + 1);
                    insts.insert(at, x);
                    faults.push("fault.insert".to_string());
                }
            }
        }
        let mut header = stream.header.clone();
        header.bound += 100;
        Trace {
            header,
            insts,
            faults,
            free_word: false,
        }
    }

    fn execute(t: &Trace, cov: &mut Cov) -> RunOut {
        let mut h = AbsHash::new();
        for f in &t.faults {
            cov.hit_dyn(f.clone());
        }
        cov.hit("steps");
        let stream = Stream {
            header: t.header.clone(),
            insts: t.insts.clone(),
        };
        let (words, _) = stream.encode();
        let bytes = words_to_bytes(&words);
        // the history must be grammar-valid; what the loader is fed is the REFERENCE acceptor's reading of
        // the bytes (message faults may move a literal in front of the declaration that sized it)
        let verdict = accept(&bytes);
        let nontrivial = t.insts.len() >= 3 || !t.faults.is_empty();
        if verdict.outcome != Outcome::Accept {
            cov.hit("skipped.not_grammar_valid");
            return RunOut { violation: None, abs_hash: h.0, nontrivial };
        }
        let hist: &Vec<MInst> = &verdict.insts;
        // reference automaton over the history
        let mut a = Automaton::new();
        let mut expect: Result<(), (usize, LErr)> = Ok(());
        for (k, i) in hist.iter().enumerate() {
            let st = a.state();
            let lc = layout::class_of(i.opcode);
            match a.step(i) {
                Ok(()) => {
                    cov.triple(st, lc.code(), 0);
                    h.push(lc.code(), 0);
                }
                Err(e) => {
                    cov.triple(st, lc.code(), 1 + e as u32);
                    h.push(lc.code(), 1 + e as u32);
                    expect = Err((k, e));
                    break;
                }
            }
        }
        if expect.is_ok() {
            if let Err(e) = a.finish() {
                cov.triple(a.state(), 99, 1 + e as u32);
                h.push(99, 1 + e as u32);
                expect = Err((hist.len(), e));
            }
        }
        let out = |v: Option<Violation>| RunOut {
            violation: v,
            abs_hash: h.0,
            nontrivial,
        };
        // OpLine/OpNoLine inside a function but outside a block: WHERE it is stored is unconstrained, but every
        // other clause still holds (see below); a vendor opcode outside a block makes the whole run unjudged
        let line_only = a.unconstrained && !a.unconstrained_insts.is_empty() && expect.is_ok();
        if a.unconstrained && !line_only {
            cov.hit("reached.unconstrained_placement");
            return out(None);
        }
        let gb = GuardedBuf::new(&bytes, true);
        let res = match guarded(|| dr::load_words(gb.words().expect("word aligned"))) {
            Ok(r) => r,
            Err(pi) => return out(Some(Violation::new("C05.panic", pi.locus(), 0, pi.detail()))),
        };
        // the same history fed to a Loader directly, with the header the binary really carries (the parser's own
        // header drops the generator and schema words): the verdict is a function of the instruction sequence alone
        {
            struct Feed {
                l: dr::Loader,
                generator: u32,
                schema: u32,
            }
            impl rspirv::binary::Consumer for Feed {
                fn initialize(&mut self) -> rspirv::binary::ParseAction {
                    self.l.initialize()
                }
                fn finalize(&mut self) -> rspirv::binary::ParseAction {
                    self.l.finalize()
                }
                fn consume_header(&mut self, mut h: dr::ModuleHeader) -> rspirv::binary::ParseAction {
                    h.generator = self.generator;
                    h.reserved_word = self.schema;
                    self.l.consume_header(h)
                }
                fn consume_instruction(&mut self, i: dr::Instruction) -> rspirv::binary::ParseAction {
                    self.l.consume_instruction(i)
                }
            }
            let mut feed = Feed { l: dr::Loader::new(), generator: t.header.generator, schema: t.header.schema };
            let r2 = match guarded(|| rspirv::binary::parse_words(gb.words().expect("word aligned"), &mut feed)) {
                Ok(r) => r,
                Err(pi) => return out(Some(Violation::new("C05.panic", format!("direct-feed {}", pi.locus()), 0, pi.detail()))),
            };
            cov.hit("reached.direct_feed_with_real_header");
            let same = match (&res, &r2) {
                (Ok(m), Ok(())) => {
                    let m2 = feed.l.module();
                    diff_modules(&module_to_model(m), &module_to_model(&m2), false).map(|(w, d)| format!("{}: {}", w, d))
                }
                (Err(e1), Err(e2)) if format!("{:?}", e1) == format!("{:?}", e2) => None,
                (a1, a2) => Some(format!(
                    "load_words: {}, direct feed: {}",
                    match a1 {
                        Ok(_) => "Ok".to_string(),
                        Err(e) => format!("{:?}", e),
                    },
                    match a2 {
                        Ok(_) => "Ok".to_string(),
                        Err(e) => format!("{:?}", e),
                    }
                )),
            };
            if let Some(d) = same {
                return out(Some(Violation::new("C05.header-independent", format!("generator={:#x}", t.header.generator), hist.len(), format!("the same instruction history loads differently when the loader is handed the binary's own header words (generator {:#010x}, schema {}): {}", t.header.generator, t.header.schema, d))));
            }
        }
        let opname = |k: usize| hist.get(k).map(|i| i.name()).unwrap_or_else(|| "end-of-stream".into());
        match (expect, res) {
            (Ok(()), Ok(m)) if line_only => {
                cov.hit("reached.line_outside_block_accepted");
                // structural clauses on the real module as it is
                for (fi, f) in m.functions.iter().enumerate() {
                    if f.def.is_none() || f.end.is_none() {
                        return out(Some(Violation::new("C05.function-owns-def-end", "line-outside-block".to_string(), hist.len(), format!("function {} lacks its defining or ending instruction", fi))));
                    }
                    for (bi, b) in f.blocks.iter().enumerate() {
                        let model_insts: Vec<MInst> = b.instructions.iter().map(to_model).collect();
                        let last_is_term = model_insts.last().map(|i| layout::class_of(i.opcode) == Lc::Terminator).unwrap_or(false);
                        let inner_terms = model_insts.iter().rev().skip(1).filter(|i| layout::class_of(i.opcode) == Lc::Terminator).count();
                        if b.label.is_none() || !last_is_term || inner_terms != 0 {
                            return out(Some(Violation::new(
                                "C05.block-ends-with-terminator",
                                "line-outside-block".to_string(),
                                hist.len(),
                                format!("function {} block {} holds [{}]: it must own its label and end with a terminator that occurs nowhere else in it", fi, bi, model_insts.iter().map(show).collect::<Vec<_>>().join("; ")),
                            )));
                        }
                    }
                }
                // everything except the unconstrained line instructions sits where the layout says
                let mut real = module_to_model(&m);
                let drop = |v: &mut Vec<MInst>| v.retain(|i| !a.unconstrained_insts.contains(i));
                for sct in real.sections.iter_mut() {
                    drop(sct);
                }
                for f in real.functions.iter_mut() {
                    drop(&mut f.params);
                    for b in f.blocks.iter_mut() {
                        drop(&mut b.insts);
                    }
                }
                let mut exp = a.module.clone();
                for sct in exp.sections.iter_mut() {
                    drop(sct);
                }
                for f in exp.functions.iter_mut() {
                    for b in f.blocks.iter_mut() {
                        drop(&mut b.insts);
                    }
                }
                if let Some((wher, detail)) = diff_modules(&exp, &real, a.module.memory_models_seen > 1) {
                    return out(Some(Violation::new("C05.placement", format!("line-outside-block {}", wher), hist.len(), detail)));
                }
                out(None)
            }
            (Ok(()), Ok(m)) => {
                cov.hit("reached.accepted");
                let real = module_to_model(&m);
                if let Some((wher, detail)) = diff_modules(&a.module, &real, a.module.memory_models_seen > 1) {
                    // name the opcode that is misplaced, if one can be identified
                    let culprit = hist
                        .iter()
                        .find(|i| {
                            let in_exp = crate::modcmp::flatten(&a.module).iter().filter(|x| x == i).count();
                            let _ = in_exp;
                            // an instruction filed in different places by model and real loader
                            place_of(&a.module, i) != place_of(&real, i)
                        })
                        .map(|i| i.name())
                        .unwrap_or_else(|| "?".into());
                    return out(Some(Violation::new("C05.placement", format!("op={} {}", culprit, wher), t.insts.len(), detail)));
                }
                out(None)
            }
            (Ok(()), Err(_)) if line_only => {
                // rejecting a line instruction outside a block would be a legitimate policy too
                cov.hit("reached.unconstrained_placement");
                out(None)
            }
            (Ok(()), Err(e)) => {
                let (got, culprit) = match &e {
                    ParseState::ConsumerError(b) => match b.downcast_ref::<dr::Error>() {
                        Some(de) => (
                            err_name(de).to_string(),
                            match de {
                                dr::Error::DetachedInstruction(Some(i)) => i.class.opname.to_string(),
                                _ => "?".into(),
                            },
                        ),
                        None => ("non-loader consumer error".into(), "?".into()),
                    },
                    other => (format!("{:?}", other), "?".into()),
                };
                out(Some(Violation::new(
                    "C05.rejects-well-bracketed",
                    format!("got={} op={}", got, culprit),
                    t.insts.len(),
                    format!("well-bracketed history of {} instructions rejected with {:?}", t.insts.len(), e),
                )))
            }
            (Err((k, le)), Ok(_)) => out(Some(Violation::new(
                "C05.accepts-ill-bracketed",
                format!("expected={} op={}", le.name(), opname(k)),
                k,
                format!("loading succeeded although instruction #{} (Op{}) must raise {}", k + 1, opname(k), le.name()),
            ))),
            (Err((k, le)), Err(e)) => {
                match &e {
                    ParseState::ConsumerError(b) => match b.downcast_ref::<dr::Error>() {
                        Some(de) if err_name(de) == le.name() => {
                            cov.hit_dyn(format!("reached.error_{}", le.name()));
                            out(None)
                        }
                        Some(de) => out(Some(Violation::new(
                            "C05.wrong-structural-error",
                            format!("expected={} got={} op={}", le.name(), err_name(de), opname(k)),
                            k,
                            format!("first offending instruction is #{} (Op{}): expected {}, loader reported {}", k + 1, opname(k), le.name(), err_name(de)),
                        ))),
                        None => out(Some(Violation::new("C05.wrong-structural-error", format!("expected={} got=foreign-error", le.name()), k, format!("{:?}", e)))),
                    },
                    other => out(Some(Violation::new(
                        "C05.wrong-structural-error",
                        format!("expected={} got=parse-error", le.name()),
                        k,
                        format!("expected loader error {} but the result is {:?}", le.name(), other),
                    ))),
                }
            }
        }
    }

    fn shrink(t: &Trace) -> Vec<Trace> {
        let mut out = vec![];
        let n = t.insts.len();
        if n > 1 {
            let mut c = t.clone();
            c.insts.truncate(n / 2);
            out.push(c);
            let mut c = t.clone();
            c.insts.drain(..n / 2);
            out.push(c);
        }
        for j in shrink_indices(n) {
            let mut c = t.clone();
            c.insts.remove(j);
            out.push(c);
        }
        for j in 0..n.min(300) {
            // simplify operands: drop strings / trailing operands is unsafe for grammar validity; only shorten strings
            for (k, o) in t.insts[j].ops.iter().enumerate() {
                if let MOp::S(s) = o {
                    if !s.is_empty() {
                        let mut c = t.clone();
                        c.insts[j].ops[k] = MOp::S(String::new());
                        out.push(c);
                    }
                }
            }
        }
        out
    }

    fn meta() -> Meta {
        Meta {
            level: "exploration",
            rule: "each run is a history of grammar-valid instructions over the alphabet {function, function-end, parameter, label, each terminator, block instruction, variable, undef, line, no-line, one letter per module-level section}: 2/3 of the runs take a well-formed producer module and apply 0-3 message faults (drop, dup, swap, move, insert; biased to bracket boundaries), 1/3 are free words of length <= 8 biased to structural letters; vendor and context-dependent module-scope opcodes are not in the alphabet; the history goes through dr::load_words and is judged against the bracket automaton + section map; abstract trace = sequence of (letter class, automaton outcome); non-trivial = >= 3 instructions or a fault applied",
            lanes: "a line instruction in a function outside a block leaves only its own placement unconstrained (block/terminator and placement clauses still checked); direct-feed lane: the same history fed to a Loader with the binary's real generator / schema words must give the same verdict and module as load_words; merge instructions naming the following label; Capability Linkage + LinkageAttributes on function ids",
            triple_measure: "(automaton state none/function/block, letter class, outcome: ok or which structural error) — 3 states x ~21 letters",
            item_measure: "n/a",
            assumptions: &[
                "section membership and the terminator set are a hand transcription of the SPIR-V logical layout for the classes C05 names (DESIGN §3.4), independent of grammar::reflect",
                "OpLine/OpNoLine inside a function but outside a block: placement unconstrained, run not judged",
                "with more than one OpMemoryModel the memory-model section is not compared",
            ],
            real_components: &["dr::Loader / dr::load_words", "grammar::reflect predicates as used by the loader", "binary::Parser (real, not stubbed)"],
            simulated_components: &["history generator with message faults", "reference encoder", "bracket automaton + section map"],
            fault_kinds: &["drop", "dup", "swap", "move", "insert"],
        }
    }
}

/// where an instruction sits in a model module: (section | 100+function, block, kind)
fn place_of(m: &layout::MModule, i: &MInst) -> Option<(usize, usize, usize)> {
    for (s, v) in m.sections.iter().enumerate() {
        if v.contains(i) {
            return Some((s, 0, 0));
        }
    }
    for (f, func) in m.functions.iter().enumerate() {
        if func.def.as_ref() == Some(i) {
            return Some((100 + f, 0, 1));
        }
        if func.end.as_ref() == Some(i) {
            return Some((100 + f, 0, 2));
        }
        if func.params.contains(i) {
            return Some((100 + f, 0, 3));
        }
        for (b, blk) in func.blocks.iter().enumerate() {
            if blk.label.as_ref() == Some(i) {
                return Some((100 + f, b, 4));
            }
            if blk.insts.contains(i) {
                return Some((100 + f, b, 5));
            }
        }
    }
    None
}
