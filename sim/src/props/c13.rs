//! C13 — Builder id discipline: fresh ids strictly increasing and distinct, exact
//! bound, deduplicated implicit types.  Histories biased to id-allocating calls,
//! including calls that fail after reserving an id and continuation from an
//! existing module.

use crate::bdrive::*;
use crate::bglue::*;
use crate::core::*;
use crate::model::*;
use crate::props::c12::{gen_call, shrink_ops};
use crate::rng::Rng;
use crate::snapshot::snap;
use serde::{Deserialize, Serialize};

#[derive(Clone, Debug, Serialize, Deserialize)]
pub struct Trace {
    pub ops: Vec<BOp>,
    /// take one more id() right before module() (exact "bound = next id" check); without it only
    /// "bound exceeds every allocated id" can be demanded, but nothing repairs a stale bound either
    #[serde(default = "yes")]
    pub probe_at_end: bool,
}

fn yes() -> bool {
    true
}

pub struct C13;

fn viol(clause: &str, locus: String, step: usize, detail: String) -> Option<Violation> {
    Some(Violation::new(&format!("C13.{}", clause), locus, step, detail))
}

/// a small pool of type requests so that equal requests recur
fn type_call(rng: &mut Rng) -> Option<BOp> {
    let bs = bindings();
    let types: Vec<&Binding> = bs.all.iter().filter(|b| b.class == MClass::Type).collect();
    if types.is_empty() {
        return None;
    }
    // few distinct (method, seed) pairs => the same request is repeated within a run
    let simple = ["type_void", "type_bool", "type_int", "type_float", "type_vector", "type_pointer", "type_sampler", "type_void_id", "type_int_id", "type_pointer", "type_struct", "type_struct", "type_array", "type_array", "type_function", "type_struct_id"];
    let name = if rng.chance(2, 3) {
        let n = *rng.pick(&simple);
        if bs.by_name.contains_key(n) {
            n.to_string()
        } else {
            rng.pick(&types).name.to_string()
        }
    } else {
        rng.pick(&types).name.to_string()
    };
    Some(BOp::Call {
        method: name,
        arg_seed: if rng.chance(2, 3) { rng.below(7) } else { rng.below(64) },
        explicit_rid: rng.chance(1, 4),
        ip_kind: 0,
        ip_k: 0,
    })
}

impl Property for C13 {
    type Trace = Trace;
    const ID: &'static str = "C13";

    fn runs(tier: Tier) -> u64 {
        match tier {
            Tier::Quick => 250_000,
            Tier::Thorough => 25_000_000,
        }
    }

    fn generate(rng: &mut Rng, _tier: Tier) -> Trace {
        let n = rng.range(4, 40) as usize;
        let mut ops = vec![];
        let continue_at = if rng.chance(1, 5) { Some(rng.usize_below(n)) } else { None };
        let only_implicit = rng.chance(1, 2);
        for i in 0..n {
            if Some(i) == continue_at {
                if rng.chance(1, 3) {
                    // continue from a module with an arbitrary header bound (0 and huge values included)
                    ops.push(BOp::ContinueFromBound(*rng.pick(&[0u32, 0, 1, 2, 7, 0x7FFF_FFFF, 0x8000_0000, 0xFFFF_FF00])));
                } else {
                    // leave no function open so that the module is complete
                    ops.push(BOp::EndFunction);
                    ops.push(BOp::Continue);
                }
            }
            let op = match rng.below(20) {
                0..=2 => BOp::Id,
                3..=8 => match type_call(rng) {
                    Some(BOp::Call { method, arg_seed, explicit_rid, .. }) => BOp::Call {
                        method,
                        arg_seed,
                        explicit_rid: explicit_rid && !only_implicit,
                        ip_kind: 0,
                        ip_k: 0,
                    },
                    _ => BOp::Id,
                },
                9 => gen_call(rng, MClass::ModuleLevel).unwrap_or(BOp::Id),
                10 => BOp::Call {
                    // module-level calls that relate to types: decorations, constants, forward pointers
                    method: rng.pick(&["decorate", "decorate", "constant_bit32", "constant_bit32", "type_forward_pointer", "member_decorate", "capability", "capability", "extension", "memory_model", "name"]).to_string(),
                    arg_seed: rng.next(),
                    explicit_rid: false,
                    ip_kind: 0,
                    ip_k: 0,
                },
                11 => BOp::BeginFunction { explicit_id: rng.chance(1, 3), control: 0 },
                12 => {
                    if rng.chance(1, 3) {
                        BOp::BeginBlockNoLabel { explicit_id: rng.chance(1, 3) }
                    } else {
                        BOp::BeginBlock { explicit_id: rng.chance(1, 3) }
                    }
                }
                13 => BOp::Parameter,
                // block methods allocate the implicit result id BEFORE they notice that no block is selected
                14..=16 => gen_call(rng, MClass::Block).unwrap_or(BOp::Id),
                17 => gen_call(rng, MClass::Terminator).unwrap_or(BOp::Id),
                18 => BOp::EndFunction,
                _ => gen_call(rng, MClass::ContextDependent).unwrap_or(BOp::Id),
            };
            ops.push(op);
        }
        // set_version creates / touches the header at an arbitrary point, often after the last allocation
        if rng.chance(1, 3) {
            let at = if rng.chance(1, 2) { ops.len() } else { rng.usize_below(ops.len() + 1) };
            ops.insert(at, BOp::SetVersion(1, rng.below(7) as u8));
        }
        crate::props::c12::repeat_methods(rng, &mut ops);
        Trace { ops, probe_at_end: rng.chance(1, 2) }
    }

    fn execute(t: &Trace, cov: &mut Cov) -> RunOut {
        let s = snap();
        let mut d = Drv::new();
        let mut h = AbsHash::new();
        // the three ids Drv::new() takes are the first fresh ids of a new builder
        let mut fresh: Vec<u32> = d.all_ids.clone();
        let mut violation = None;
        let mut explicit_used = false;
        let mut allocs = 0u32;
        let mut failed_after_reserve = 0u32;
        // (opcode, operands) -> id handed out for implicit type requests
        let mut implicit_requests: Vec<(MInst, u32)> = vec![];
        let mut pre_continue_probe: Option<u32> = None;
        let mut shared_ids: Vec<u32> = vec![];
        if fresh != vec![1, 2, 3] {
            violation = viol("starts-at-one", "new-builder".into(), 0, format!("the first three ids of a new builder are {:?}", fresh));
        }
        let check_fresh = |fresh: &mut Vec<u32>, id: u32, step: usize, what: &str| -> Option<Violation> {
            if let Some(last) = fresh.last() {
                if id <= *last {
                    let clause = if fresh.contains(&id) { "distinct" } else { "increasing" };
                    return viol(clause, "fresh-id".into(), step, format!("{} returned fresh id {} after {} had been allocated", what, id, last));
                }
            }
            fresh.push(id);
            None
        };
        if violation.is_none() {
            for (step, op) in t.ops.iter().enumerate() {
                cov.hit("steps");
                if *op == BOp::Continue {
                    // observe the next id right before the module is taken
                    let r = d.step(&BOp::Id);
                    if let Some(p) = r.ret.id() {
                        if let Some(v) = check_fresh(&mut fresh, p, step, "id()") {
                            violation = Some(v);
                            break;
                        }
                        pre_continue_probe = Some(p);
                    }
                }
                let before_ids = d.all_ids.len();
                let rep = d.step(op);
                if rep.panic.is_some() {
                    // C12's clause; the id discipline cannot be judged further
                    cov.hit("skipped.panicked");
                    break;
                }
                let cls = rep.binding.as_ref().map(|b| b.class as u32 + 1).unwrap_or(0);
                h.push(rep.kind as u32 * 8 + cls, rep.ret.is_err() as u32 * 2 + rep.explicit_rid.is_some() as u32);
                cov.triple(rep.kind as u32 * 8 + cls, rep.explicit_rid.is_some() as u32, rep.ret.is_err() as u32);
                // explicit ids were taken from the builder right before the call: they are fresh ids too
                if let Some(x) = rep.explicit_rid {
                    if rep.explicit_reused {
                        // the caller repeats an id that is already in use: from here on that id stands for more than
                        // one declaration, so "different requests never share an id" cannot be asked of it
                        shared_ids.push(x);
                        cov.hit("reached.explicit_id_repeats_an_id_in_use");
                    }
                    // (an id reserved by an earlier id() call was already checked when it was handed out)
                    if !rep.explicit_reused && d.all_ids[before_ids..].contains(&x) && !fresh.contains(&x) {
                        if let Some(v) = check_fresh(&mut fresh, x, step, "id() [explicit result id]") {
                            violation = Some(v);
                        }
                    }
                }
                if violation.is_some() {
                    break;
                }
                if rep.kind == CallKind::Continue {
                    if matches!(op, BOp::ContinueFromBound(_)) {
                        // a new id space: monotonicity restarts at the given bound
                        fresh.clear();
                        implicit_requests.clear();
                        pre_continue_probe = None;
                    }
                    if let Some(bound) = d.continued_from_bound {
                        // continuing an existing module: allocation starts at the header bound
                        let probe = d.b.id();
                        d.all_ids.push(probe);
                        d.untyped.push(probe);
                        cov.hit("reached.continued_from_module");
                        if probe != bound {
                            violation = viol("continue-at-bound", "new_from_module".into(), step, format!("first id after new_from_module is {} but the module's bound is {}", probe, bound));
                            break;
                        }
                        // the executor took one id right before module(): the bound must be the next one
                        if let Some(p) = pre_continue_probe.take() {
                            if bound != p + 1 {
                                violation = viol("bound-is-next-id", "module()".into(), step, format!("id() returned {} and then module() wrote bound {} (expected {})", p, bound, p + 1));
                                break;
                            }
                        }
                        fresh.push(probe);
                    }
                    continue;
                }
                if rep.mismatch.is_some() {
                    // arguments not zippable: the returned id is still subject to monotonicity if it is new
                    if let Some(id) = rep.ret.id() {
                        if rep.explicit_rid != Some(id) && !fresh.contains(&id) {
                            if let Some(v) = check_fresh(&mut fresh, id, step, &rep.what) {
                                violation = Some(v);
                                break;
                            }
                        }
                    }
                    continue;
                }
                if rep.ret.is_err() {
                    if rep.binding.as_ref().map(|b| b.class == MClass::Block).unwrap_or(false) && rep.explicit_rid.is_none() {
                        failed_after_reserve += 1;
                        cov.hit("fault.call_failed_after_reserving_id");
                    }
                    continue;
                }
                let is_type = rep.binding.as_ref().map(|b| b.class == MClass::Type).unwrap_or(false);
                let dl = delta(&rep.pre, &rep.post);
                if is_type {
                    let want = rep.intended.clone().unwrap();
                    let key = MInst { rid: None, ..want.clone() };
                    let ret_id = rep.ret.id().unwrap_or(0);
                    let existing: Vec<u32> = rep.pre.sections[10]
                        .iter()
                        .filter(|i| i.opcode == key.opcode && i.ops == key.ops && i.rid.is_some())
                        .map(|i| i.rid.unwrap())
                        .collect();
                    match rep.explicit_rid {
                        Some(x) => {
                            explicit_used = true;
                            cov.hit("reached.type_explicit_id");
                            match &dl {
                                Delta::Added(Place::Section(10), _, i) if i.rid == Some(x) && i.opcode == key.opcode && i.ops == key.ops && ret_id == x => {}
                                _ => {
                                    violation = viol("explicit-always-appends", format!("method={}", rep.binding.as_ref().unwrap().name), step, format!("{} with explicit id {}: expected one declaration carrying that id, got return {} and delta {:?}", rep.what, x, ret_id, dl));
                                    break;
                                }
                            }
                        }
                        None => {
                            if !existing.is_empty() {
                                cov.hit("reached.type_dedup_hit");
                                if !existing.contains(&ret_id) || !matches!(dl, Delta::Same) {
                                    violation = viol(
                                        "dedup-returns-existing",
                                        format!("method={}", rep.binding.as_ref().unwrap().name),
                                        step,
                                        format!("{}: an identical declaration exists with id {:?}; the call returned {} and changed the module: {:?}", rep.what, existing, ret_id, dl),
                                    );
                                    break;
                                }
                            } else {
                                match &dl {
                                    Delta::Added(Place::Section(10), _, i) if i.rid == Some(ret_id) && i.opcode == key.opcode && i.ops == key.ops => {}
                                    _ => {
                                        violation = viol("fresh-type-appends-one", format!("method={}", rep.binding.as_ref().unwrap().name), step, format!("{}: no identical declaration exists; expected exactly one new declaration with the returned id {}; delta {:?}", rep.what, ret_id, dl));
                                        break;
                                    }
                                }
                                if let Some(v) = check_fresh(&mut fresh, ret_id, step, &rep.what) {
                                    violation = Some(v);
                                    break;
                                }
                                allocs += 1;
                            }
                            // different requests never share an id
                            if let Some((other, _)) = implicit_requests.iter().find(|(k, id)| *id == ret_id && !shared_ids.contains(id) && (k.opcode != key.opcode || k.ops != key.ops)) {
                                violation = viol("distinct-requests-distinct-ids", format!("method={}", rep.binding.as_ref().unwrap().name), step, format!("{} returned id {} which was also returned for the different request [{}]", rep.what, ret_id, show(other)));
                                break;
                            }
                            implicit_requests.push((key, ret_id));
                        }
                    }
                    cov.item(rep.binding.as_ref().unwrap().midx as u32);
                    continue;
                }
                // any other call that returns an id which it allocated itself
                if let Some(id) = rep.ret.id() {
                    if rep.explicit_rid == Some(id) {
                        continue;
                    }
                    if let Some(v) = check_fresh(&mut fresh, id, step, &rep.what) {
                        violation = Some(v);
                        break;
                    }
                    allocs += 1;
                    // an instruction emitted with an implicit id carries exactly that id
                    if let Delta::Added(_, _, i) = &dl {
                        let has_rid = s.inst(i.opcode).map(|g| g.operands.iter().any(|(k, _)| s.cat(*k) == crate::snapshot::Cat::IdResult)).unwrap_or(false);
                        if has_rid && i.rid != Some(id) {
                            violation = viol("implicit-id-carried", "emitted".into(), step, format!("{} returned {} but the emitted instruction carries {:?}", rep.what, id, i.rid));
                            break;
                        }
                    }
                }
            }
        }
        // ---- end of history: bound equals the next id -------------------------------------------
        if violation.is_none() {
            let end = t.ops.len();
            let last_before = fresh.last().cloned().unwrap_or(0);
            let probe = t.probe_at_end;
            let r = guarded(|| {
                let p = if probe { Some(d.b.id()) } else { None };
                let m = std::mem::take(&mut d.b).module();
                (p, m)
            });
            match r {
                Err(_) => cov.hit("skipped.panicked"),
                Ok((None, m)) => {
                    // no probe: the bound must still exceed every id allocated so far
                    let max_id = d.all_ids.iter().cloned().max().unwrap_or(0).max(last_before);
                    cov.hit("reached.module_without_final_probe");
                    match m.header.as_ref().map(|h| h.bound) {
                        Some(b) if b > max_id => {}
                        other => {
                            violation = viol("bound-exceeds-allocated", "module()".into(), end, format!("module() wrote bound {:?} but id {} had been allocated", other, max_id));
                        }
                    }
                }
                Ok((Some(p), m)) => {
                    if p <= last_before {
                        violation = viol("increasing", "fresh-id".into(), end, format!("final id() returned {} after {} had been allocated", p, last_before));
                    } else if m.header.as_ref().map(|h| h.bound) != Some(p + 1) {
                        violation = viol("bound-is-next-id", "module()".into(), end, format!("id() returned {} and then module() wrote bound {:?} (expected {})", p, m.header.as_ref().map(|h| h.bound), p + 1));
                    } else if !explicit_used {
                        // all types requested implicitly: no two identical type declarations
                        let decls: Vec<&rspirv::dr::Instruction> = m.types_global_values.iter().filter(|i| i.class.opname.starts_with("Type") && i.result_id.is_some()).collect();
                        'outer: for (a, x) in decls.iter().enumerate() {
                            for y in decls.iter().skip(a + 1) {
                                // only declarations that went through a deduplicating method are judged
                                let name = x.class.opname;
                                if name == "TypeOpaque" || name == "TypeForwardPointer" {
                                    continue;
                                }
                                if x.class.opcode == y.class.opcode && x.operands == y.operands {
                                    violation = viol("no-duplicate-types", format!("op={}", name), end, format!("the finished module declares Op{} with identical operands twice (ids {:?} and {:?})", name, x.result_id, y.result_id));
                                    break 'outer;
                                }
                            }
                        }
                    }
                }
            }
        }
        RunOut {
            violation,
            abs_hash: h.0,
            nontrivial: allocs >= 3 || failed_after_reserve >= 1,
        }
    }

    fn shrink(t: &Trace) -> Vec<Trace> {
        let mut v: Vec<Trace> = shrink_ops(&t.ops).into_iter().map(|ops| Trace { ops, probe_at_end: t.probe_at_end }).collect();
        if !t.probe_at_end {
            v.push(Trace { ops: t.ops.clone(), probe_at_end: true });
        }
        v
    }

    fn meta() -> Meta {
        Meta {
            level: "exploration",
            rule: "each run is a history of 4-40 Builder calls biased to id allocation: id(), every generated type_* / type_*_id method and type_pointer with and without explicit ids over a small request pool (so equal requests recur), constants and other module-level calls, functions/blocks/parameters, block methods with implicit result ids called while no block is selected (they reserve an id and then fail), context-dependent calls; one run in five takes the module and continues with Builder::new_from_module; checked: fresh ids strictly increasing and distinct starting at 1 (or at the bound when continuing), final bound = id()+1, implicit type requests return an existing identical declaration's id and add nothing or append exactly one declaration with a fresh id, explicit ids always append, no duplicate types when all requests were implicit, different requests never share an id; abstract trace = sequence of (call class, explicit?, ok/err); non-trivial = >= 3 allocations or a call that failed after reserving an id",
            lanes: "set_version anywhere; half of the runs take module() without a final id() probe; begin_block_no_label; continuation from arbitrary header bounds (0, 1, 2^31, ...); biased decorate / forward-pointer / struct / array / constant arguments so that related requests recur; near-repeat lane (a request again, or with one enumerant / id / literal changed, one optional operand toggled) and method-repeat post-pass; capability / extension / memory_model / name calls between type requests; enumerants biased to the well-known low numbers; explicit ids that repeat the id of an existing declaration or one of the request's own operands",
            triple_measure: "(call class, explicit id?, ok/err)",
            item_measure: "type methods (generated table) whose dedup/append behaviour was checked",
            assumptions: &[
                "how many ids a failed call burnt is not modelled; only monotonicity and the final bound = next id are required",
                "TypeOpaque / TypeForwardPointer have no deduplicating method and are excluded from the no-duplicate clause",
            ],
            real_components: &["dr::Builder::{id, module, new_from_module, dedup_insert_type, every generated type_* method, type_pointer, constants}"],
            simulated_components: &["call-history generator", "monotone-id / bound / dedup model"],
            fault_kinds: &["call_failed_after_reserving_id"],
        }
    }
}
