//! C19 — storage tokens are stable handles (sr::storage::Storage).
//! History of append / fetch_or_append / lookup against a Vec model, with
//! adversarial equality relations and an equality that unwinds mid-scan as the
//! fault kind.

use crate::core::*;
use crate::rng::Rng;
use rspirv::sr::storage::{Storage, Token};
use serde::{Deserialize, Serialize};
use std::cell::Cell;

#[derive(Clone, Debug, Serialize, Deserialize, PartialEq)]
pub enum Relation {
    /// equal iff same class
    ByClass,
    /// classes whose bit is set in the mask are unequal to everything (NaN-like); others by class
    NanLike(u32),
    /// |class difference| <= 1: reflexive, symmetric, not transitive
    Near,
    /// equal iff same class AND different identity: no value equals itself, yet equals other stored ones
    /// (symmetric, irreflexive; not a float-NaN pattern)
    OthersOfSameClass,
}

#[derive(Clone, Debug, Serialize, Deserialize, PartialEq)]
pub enum Op {
    Append(u32),
    Fetch(u32),
    Lookup(u32),
}

#[derive(Clone, Debug, Serialize, Deserialize)]
pub struct Trace {
    /// element type is an enum with two variants (equality ignores the variant)
    #[serde(default)]
    pub enum_elem: bool,
    /// element type is larger than a cache line (136 bytes)
    #[serde(default)]
    pub big_elem: bool,
    /// element type larger than 64 KiB (1: 65 600 bytes) or than 1 MiB (2)
    #[serde(default)]
    pub huge_elem: u8,
    /// the element type overrides `ne` inconsistently with `eq` (0: consistent, 1: always false, 2: always true);
    /// the property speaks of equality only
    #[serde(default)]
    pub ne_mode: u8,
    /// this many distinct values are appended before the history proper (long-lived storage)
    #[serde(default)]
    pub prefill: u32,
    /// how the storage is constructed: 0 `Storage::new()`, 1 `Storage::default()`, 2 the default value left behind by
    /// `std::mem::take` on a used storage
    #[serde(default)]
    pub ctor: u8,
    /// the prefill goes through fetch_or_append (classes two apart, so nothing matches) instead of append
    #[serde(default)]
    pub prefill_by_fetch: bool,
    /// element type is zero-sized (all values carry no data; equality still follows the relation on a
    /// thread-local "current class" so NaN-like / always-equal behaviours are possible)
    #[serde(default)]
    pub zst: bool,
    pub relation: Relation,
    /// fault: the k-th evaluation of `==` (1-based, counted over the whole run) unwinds
    pub unwind_at: Option<u32>,
    pub ops: Vec<Op>,
}

trait Elem: PartialEq + Default {
    fn make(class: u32, uid: u32) -> Self;
    fn uid(&self) -> u32;
}

#[derive(Debug, Default)]
struct V {
    class: u32,
    uid: u32,
}

/// two variants; which one a value uses depends on its identity, equality does not look at it
#[derive(Debug)]
enum E {
    A { class: u32, uid: u32 },
    B(u32, u32),
}

thread_local! {
    static REL: Cell<(u8, u32)> = const { Cell::new((0, 0)) };
    static EQ_CALLS: Cell<u32> = const { Cell::new(0) };
    static UNWIND_AT: Cell<u32> = const { Cell::new(0) };
}

fn rel_eq(a: u32, au: u32, b: u32, bu: u32) -> bool {
    let (kind, mask) = REL.with(|r| r.get());
    match kind {
        0 => a == b,
        1 => {
            if a < 32 && (mask >> a) & 1 == 1 || b < 32 && (mask >> b) & 1 == 1 {
                false
            } else {
                a == b
            }
        }
        2 => a.abs_diff(b) <= 1,
        _ => a == b && au != bu,
    }
}

fn counted_eq(a: u32, au: u32, b: u32, bu: u32) -> bool {
    let n = EQ_CALLS.with(|c| {
        c.set(c.get().wrapping_add(1));
        c.get()
    });
    if UNWIND_AT.with(|u| u.get()) == n {
        panic!("simulated fault: equality unwinds");
    }
    rel_eq(a, au, b, bu)
}

impl PartialEq for V {
    fn eq(&self, other: &V) -> bool {
        counted_eq(self.class, self.uid, other.class, other.uid)
    }
    #[allow(clippy::partialeq_ne_impl)]
    fn ne(&self, other: &V) -> bool {
        odd_ne(self.class, self.uid, other.class, other.uid)
    }
}

impl Elem for V {
    fn make(class: u32, uid: u32) -> V {
        V { class, uid }
    }
    fn uid(&self) -> u32 {
        self.uid
    }
}

/// larger than a cache line
#[derive(Debug, Default)]
struct Big {
    class: u32,
    uid: u32,
    _pad: [u64; 16],
}

impl PartialEq for Big {
    fn eq(&self, other: &Big) -> bool {
        counted_eq(self.class, self.uid, other.class, other.uid)
    }
    #[allow(clippy::partialeq_ne_impl)]
    fn ne(&self, other: &Big) -> bool {
        odd_ne(self.class, self.uid, other.class, other.uid)
    }
}

impl Elem for Big {
    fn make(class: u32, uid: u32) -> Big {
        Big { class, uid, _pad: [uid as u64; 16] }
    }
    fn uid(&self) -> u32 {
        self.uid
    }
}

/// larger than 64 KiB / 1 MiB: any block-wise or byte-offset arithmetic on the element size meets its 16- and 20-bit boundaries
#[derive(Debug)]
struct Huge<const N: usize> {
    class: u32,
    uid: u32,
    _pad: [u8; N],
}

impl<const N: usize> Default for Huge<N> {
    fn default() -> Self {
        Huge { class: 0, uid: 0, _pad: [0; N] }
    }
}

impl<const N: usize> PartialEq for Huge<N> {
    fn eq(&self, other: &Huge<N>) -> bool {
        counted_eq(self.class, self.uid, other.class, other.uid)
    }
}

impl<const N: usize> Elem for Huge<N> {
    fn make(class: u32, uid: u32) -> Huge<N> {
        Huge { class, uid, _pad: [uid as u8; N] }
    }
    fn uid(&self) -> u32 {
        self.uid
    }
}

thread_local! {
    static NE_MODE: Cell<u8> = const { Cell::new(0) };
}

/// `!=` as the element type defines it: consistent with `==`, or (adversarially) a constant
fn odd_ne(a: u32, au: u32, b: u32, bu: u32) -> bool {
    match NE_MODE.with(|m| m.get()) {
        1 => false,
        2 => true,
        _ => !rel_eq(a, au, b, bu),
    }
}

impl Default for E {
    fn default() -> E {
        E::B(0, 0)
    }
}

impl E {
    fn parts(&self) -> (u32, u32) {
        match self {
            E::A { class, uid } => (*class, *uid),
            E::B(class, uid) => (*class, *uid),
        }
    }
}

impl PartialEq for E {
    fn eq(&self, other: &E) -> bool {
        let (a, au) = self.parts();
        let (b, bu) = other.parts();
        counted_eq(a, au, b, bu)
    }
}

impl Elem for E {
    fn make(class: u32, uid: u32) -> E {
        if uid % 3 == 0 {
            E::B(class, uid)
        } else {
            E::A { class, uid }
        }
    }
    fn uid(&self) -> u32 {
        self.parts().1
    }
}

/// the storage under test, constructed the way the trace says
fn construct<T: Default>(ctor: u8, cov: &mut Cov) -> Result<Storage<T>, PanicInfo> {
    match ctor {
        1 => {
            cov.hit("reached.storage_from_default");
            Ok(Storage::default())
        }
        2 => {
            cov.hit("reached.storage_left_by_mem_take");
            // (the append on the storage that is taken away is code under test too)
            guarded(|| {
                let mut tmp: Storage<T> = Storage::new();
                tmp.append(T::default());
                let _old = std::mem::take(&mut tmp);
                tmp
            })
        }
        _ => Ok(Storage::new()),
    }
}

const SENTINEL_CLASS: u32 = 1_000_000;
const PREFILL_CLASS: u32 = 2_000_000;

/// zero-sized element: every value is indistinguishable; `==` is decided per run (always / never equal)
#[derive(Debug, Default)]
struct Z;

thread_local! {
    static Z_EQUAL: Cell<bool> = const { Cell::new(true) };
}

impl PartialEq for Z {
    fn eq(&self, _other: &Z) -> bool {
        Z_EQUAL.with(|z| z.get())
    }
}

fn execute_zst(t: &Trace, cov: &mut Cov) -> RunOut {
    // NaN-like relation => never equal; anything else => always equal
    let never = matches!(t.relation, Relation::NanLike(_));
    Z_EQUAL.with(|z| z.set(!never));
    let mut st: Storage<Z> = match construct(t.ctor, cov) {
        Ok(st) => st,
        Err(pi) => {
            return RunOut {
                violation: Some(Violation::new("C19.append.panic", "op=append zero-sized", 0, pi.detail())),
                abs_hash: 0x5a5a,
                nontrivial: true,
            }
        }
    };
    let mut count: u32 = 0;
    let mut h = AbsHash::new();
    let mut viol = None;
    let mut seen: Vec<u32> = vec![];
    for (step, op) in t.ops.iter().enumerate() {
        cov.hit("steps");
        match op {
            Op::Append(_) => {
                let tok = match guarded(|| st.append(Z)) {
                    Ok(t) => t,
                    Err(pi) => {
                        viol = Some(Violation::new("C19.append.panic", "op=append zero-sized", step, pi.detail()));
                        break;
                    }
                };
                if tok.index() != count || seen.contains(&tok.index()) {
                    viol = Some(Violation::new(
                        "C19.append.dense-index",
                        "op=append zero-sized",
                        step,
                        format!("append #{} of a zero-sized value returned index {} (expected a new token {})", count + 1, tok.index(), count),
                    ));
                    break;
                }
                seen.push(tok.index());
                count += 1;
                h.push(1, 0);
            }
            Op::Fetch(_) => {
                let tok = match guarded(|| st.fetch_or_append(Z)) {
                    Ok(t) => t,
                    Err(pi) => {
                        viol = Some(Violation::new("C19.fetch.panic", "op=fetch_or_append zero-sized", step, pi.detail()));
                        break;
                    }
                };
                let expect = if !never && count > 0 { 0 } else { count };
                if tok.index() != expect {
                    viol = Some(Violation::new(
                        "C19.fetch.first-match",
                        "op=fetch_or_append zero-sized",
                        step,
                        format!("fetch_or_append of a zero-sized value (equality: {}) returned index {}, expected {}", if never { "never" } else { "always" }, tok.index(), expect),
                    ));
                    break;
                }
                if expect == count {
                    count += 1;
                    h.push(2, 0);
                } else {
                    h.push(2, 1);
                }
            }
            Op::Lookup(_) => {
                h.push(3, 0);
            }
        }
        cov.triple(9, 1, 0);
    }
    cov.hit("reached.zero_sized_element_type");
    RunOut {
        violation: viol,
        abs_hash: h.0 ^ 0x5a5a,
        nontrivial: count >= 3,
    }
}

fn run_history<T: Elem>(t: &Trace, cov: &mut Cov) -> RunOut {
    let (kind, mask) = match t.relation {
        Relation::ByClass => (0u8, 0),
        Relation::NanLike(m) => (1, m),
        Relation::Near => (2, 0),
        Relation::OthersOfSameClass => (3, 0),
    };
    REL.with(|r| r.set((kind, mask)));
    EQ_CALLS.with(|c| c.set(0));
    UNWIND_AT.with(|u| u.set(t.unwind_at.unwrap_or(0)));

    let mut st: Storage<T> = match construct(t.ctor, cov) {
        Ok(st) => st,
        Err(pi) => {
            return RunOut {
                violation: Some(Violation::new("C19.append.panic", "op=append", 0, pi.detail())),
                abs_hash: 0,
                nontrivial: true,
            }
        }
    };
    let mut model: Vec<(u32, u32)> = vec![]; // (class, uid)
    let mut tokens: Vec<(Token<T>, u32)> = vec![]; // every token ever returned with the uid it must resolve to
    let mut append_tokens: Vec<u32> = vec![];
    let mut next_uid = 0u32;
    let mut h = AbsHash::new();
    let mut appends = 0u32;
    let mut fault_fired = false;
    let mut viol: Option<Violation> = None;

    let fail = |clause: &str, locus: &str, step: usize, detail: String| Some(Violation::new(clause, locus, step, detail));
    // prefill (no per-step invariant: it would be quadratic); checked once afterwards
    for k in 0..t.prefill {
        let uid = next_uid;
        next_uid += 1;
        let class = if t.prefill_by_fetch { PREFILL_CLASS + 2 * k } else { PREFILL_CLASS + k };
        let by_fetch = t.prefill_by_fetch;
        match guarded(|| if by_fetch { st.fetch_or_append(T::make(class, uid)) } else { st.append(T::make(class, uid)) }) {
            Ok(tok) => {
                if tok.index() as usize != model.len() {
                    viol = fail("C19.append.dense-index", "op=append", 0, format!("append #{} returned index {}", model.len() + 1, tok.index()));
                    break;
                }
                model.push((class, uid));
                if k < 64 || k + 8 >= t.prefill {
                    tokens.push((tok, uid));
                }
            }
            Err(pi) => {
                viol = fail("C19.append.panic", "op=append", 0, pi.detail());
                break;
            }
        }
    }
    if t.prefill > 0 {
        cov.hit("reached.storage_with_thousands_of_values");
        appends += 3;
    }

    'ops: for (step, op) in t.ops.iter().enumerate() {
        if viol.is_some() {
            break;
        }
        cov.hit("steps");
        match *op {
            Op::Append(class) => {
                let uid = next_uid;
                next_uid += 1;
                let r = guarded(|| st.append(T::make(class, uid)));
                let tok = match r {
                    Ok(tok) => tok,
                    Err(pi) => {
                        viol = fail("C19.append.panic", "op=append", step, pi.detail());
                        break 'ops;
                    }
                };
                if tok.index() as usize != model.len() {
                    viol = fail(
                        "C19.append.dense-index",
                        "op=append",
                        step,
                        format!("append #{} returned index {} (expected {})", model.len() + 1, tok.index(), model.len()),
                    );
                    break 'ops;
                }
                if append_tokens.contains(&tok.index()) {
                    viol = fail("C19.append.fresh-token", "op=append", step, format!("token {} returned twice by append", tok.index()));
                    break 'ops;
                }
                append_tokens.push(tok.index());
                model.push((class, uid));
                tokens.push((tok, uid));
                appends += 1;
                h.push(1, 0);
                cov.triple(kind as u32, 1, 0);
            }
            Op::Fetch(class) => {
                let uid = next_uid;
                next_uid += 1;
                let calls_before = EQ_CALLS.with(|c| c.get());
                let r = guarded(|| st.fetch_or_append(T::make(class, uid)));
                match r {
                    Ok(tok) => {
                        let expect = model.iter().position(|(c, u)| rel_eq(*c, *u, class, uid));
                        match expect {
                            Some(i) => {
                                if tok.index() as usize != i {
                                    viol = fail(
                                        "C19.fetch.first-match",
                                        "op=fetch_or_append",
                                        step,
                                        format!("fetch_or_append(class {}) returned index {}, first equal stored value is at {}", class, tok.index(), i),
                                    );
                                    break 'ops;
                                }
                                tokens.push((tok, model[i].1));
                                h.push(2, 1);
                                cov.triple(kind as u32, 2, 1);
                                cov.hit("reached.fetch_found");
                                if i + 1 < model.len() && model[i + 1..].iter().any(|(c, u)| rel_eq(*c, *u, class, uid)) {
                                    cov.hit("reached.fetch_found_with_later_duplicate");
                                }
                            }
                            None => {
                                if tok.index() as usize != model.len() {
                                    viol = fail(
                                        "C19.fetch.append-when-absent",
                                        "op=fetch_or_append",
                                        step,
                                        format!("fetch_or_append(class {}) returned index {} but no stored value is equal; expected a new token {}", class, tok.index(), model.len()),
                                    );
                                    break 'ops;
                                }
                                model.push((class, uid));
                                tokens.push((tok, uid));
                                appends += 1;
                                h.push(2, 0);
                                cov.triple(kind as u32, 2, 0);
                                if kind == 1 && class < 32 && (mask >> class) & 1 == 1 {
                                    cov.hit("reached.fetch_nan_like_appends");
                                }
                            }
                        }
                    }
                    Err(pi) => {
                        if pi.msg.starts_with("simulated fault") {
                            // the environment's fault: only the weak post-condition is required.
                            fault_fired = true;
                            cov.hit("fault.eq_unwinds");
                            h.push(2, 2);
                            cov.triple(kind as u32, 2, 2);
                            let _ = calls_before;
                            // learn the length with a sentinel append (a legal further operation)
                            let suid = next_uid;
                            next_uid += 1;
                            let r2 = guarded(|| st.append(T::make(SENTINEL_CLASS + suid, suid)));
                            match r2 {
                                Ok(tok2) => {
                                    let idx = tok2.index() as usize;
                                    if idx == model.len() {
                                        // pending value was not added
                                    } else if idx == model.len() + 1 {
                                        model.push((class, uid)); // at most the pending value was added
                                        cov.hit("reached.unwind_left_pending_value");
                                    } else {
                                        viol = fail(
                                            "C19.unwind.bounded-effect",
                                            "op=fetch_or_append",
                                            step,
                                            format!("after an unwinding comparison the next append got index {} (model length {})", idx, model.len()),
                                        );
                                        break 'ops;
                                    }
                                    model.push((SENTINEL_CLASS + suid, suid));
                                    tokens.push((tok2, suid));
                                }
                                Err(pi2) => {
                                    viol = fail("C19.append.panic", "op=append", step, pi2.detail());
                                    break 'ops;
                                }
                            }
                        } else {
                            viol = fail("C19.fetch.panic", "op=fetch_or_append", step, pi.detail());
                            break 'ops;
                        }
                    }
                }
            }
            Op::Lookup(k) => {
                if tokens.is_empty() {
                    h.push(3, 9);
                    continue;
                }
                let (tok, uid) = tokens[k as usize % tokens.len()];
                match guarded(|| st[tok].uid()) {
                    Ok(u) if u == uid => {
                        h.push(3, 0);
                    }
                    Ok(u) => {
                        viol = fail(
                            "C19.lookup.stable",
                            "op=index",
                            step,
                            format!("token {} resolves to value uid {} (expected uid {})", tok.index(), u, uid),
                        );
                        break 'ops;
                    }
                    Err(pi) => {
                        viol = fail("C19.lookup.panic", "op=index", step, pi.detail());
                        break 'ops;
                    }
                }
            }
        }
        // invariant after every step: every token ever returned still resolves to its value
        for (tok, uid) in &tokens {
            match guarded(|| st[*tok].uid()) {
                Ok(u) if u == *uid => {}
                Ok(u) => {
                    viol = fail(
                        "C19.lookup.stable",
                        "op=index",
                        step,
                        format!("after step {} token {} resolves to uid {} (expected {})", step, tok.index(), u, uid),
                    );
                    break 'ops;
                }
                Err(pi) => {
                    viol = fail("C19.lookup.panic", "op=index", step, pi.detail());
                    break 'ops;
                }
            }
        }
    }
    UNWIND_AT.with(|u| u.set(0));
    RunOut {
        violation: viol,
        abs_hash: h.0,
        nontrivial: appends >= 3 || fault_fired,
    }
}


pub struct C19;

impl Property for C19 {
    type Trace = Trace;
    const ID: &'static str = "C19";

    fn runs(tier: Tier) -> u64 {
        match tier {
            Tier::Quick => 1_000_000,
            Tier::Thorough => 100_000_000,
        }
    }

    fn generate(rng: &mut Rng, _tier: Tier) -> Trace {
        let relation = match rng.below(6) {
            0 | 1 => Relation::ByClass,
            2 => Relation::NanLike(rng.u32() & rng.u32()),
            3 => Relation::OthersOfSameClass,
            _ => Relation::Near,
        };
        let nclasses = rng.range(1, 8) as u32;
        let n = rng.range(1, 40) as usize;
        let mut ops = vec![];
        let fetch_bias = rng.range(1, 8);
        for _ in 0..n {
            let c = rng.below(nclasses as u64) as u32 * if relation == Relation::Near && rng.chance(1, 2) { 1 } else { 1 };
            let r = rng.below(10);
            if r < fetch_bias {
                ops.push(Op::Fetch(c));
            } else if r < 9 {
                ops.push(Op::Append(c));
            } else {
                ops.push(Op::Lookup(rng.below(64) as u32));
            }
        }
        // fault: 20% of runs have an unwinding comparison somewhere inside the history
        let unwind_at = if rng.chance(1, 5) {
            Some(rng.range(1, (n as u64) * 3) as u32)
        } else {
            None
        };
        let zst = rng.chance(1, 16);
        // long-lived storage: thousands of distinct values first, then the history refers to early ones
        let prefill_by_fetch = rng.chance(1, 3);
        let prefill = if !zst && rng.chance(1, 60) {
            // a storage that already holds dozens to hundreds of values (thresholds of small-size fast paths)
            rng.range(60, 300) as u32
        } else if !zst && rng.chance(1, 400) {
            rng.range(3000, 9000) as u32
        } else if !zst && rng.chance(1, 6_000) {
            // beyond 2^16 / 2^17 / 2^18 / 2^20 stored values, even and odd
            *rng.pick(&[65_540u32, 131_071, 131_072, 131_073, 200_001, 262_144, 262_145, 262_147, 300_001, 524_289, 1_048_576, 1_048_577, 1_100_000])
        } else {
            0
        };
        if prefill > 0 {
            for o in ops.iter_mut() {
                // (appends, too, sometimes repeat a stored value: a duplicate above its first occurrence)
                let is_append = matches!(o, Op::Append(_));
                if let Op::Fetch(c) | Op::Append(c) = o {
                    if rng.chance(2, 3) && (!is_append || rng.chance(1, 2)) {
                        // (by-fetch prefill stores every second class: odd ones sit between two stored values)
                        let step = if prefill_by_fetch { 2 } else { 1 };
                        let n = prefill as u64;
                        // early values, the newest ones, or anywhere in between (block / window boundaries of a scan)
                        let k = match rng.below(5) {
                            0 => rng.below(64.min(n)),
                            1 => n - 1 - rng.below(64.min(n)),
                            // the middle of the storage (scans that split it in halves or close in from both ends)
                            4 => ((n - 1) / 2 + rng.below(3)).saturating_sub(1).min(n - 1),
                            2 => {
                                // the edge of a power-of-two look-back window (64 .. 65536 values before the end)
                                let w = 1u64 << rng.range(6, 16);
                                (n + 2).saturating_sub(w + rng.below(4)).min(n - 1)
                            }
                            _ => rng.below(n),
                        };
                        *c = PREFILL_CLASS + (step * k + if prefill_by_fetch { rng.below(2) } else { 0 }) as u32;
                    }
                }
            }
        }
        if prefill >= 65_540 && rng.chance(3, 4) {
            // a duplicate of a value around the middle (or half a storage below the end) appended on top, then fetched:
            // scans that work in halves or from both ends must still return the first occurrence
            let n = prefill as u64;
            let k = match rng.below(3) {
                0 => (n - 1) / 2,
                1 => n / 2 + rng.below(2),
                _ => ((n - 1) / 2).saturating_sub(1 + rng.below(2)),
            } as u32;
            let mut pre = vec![Op::Append(PREFILL_CLASS + k), Op::Fetch(PREFILL_CLASS + k)];
            if rng.chance(1, 2) {
                pre.swap(0, 1);
            }
            pre.extend(ops.drain(..));
            ops = pre;
        }
        let kind = rng.below(8);
        let huge_elem = if !zst && prefill == 0 && rng.chance(1, 1500) {
            match rng.below(12) {
                0 => 2,
                1 => 3,
                _ => 1,
            }
        } else {
            0
        };
        if huge_elem == 2 {
            ops.truncate(8);
        }
        if huge_elem == 3 {
            ops.truncate(4);
        }
        let ctor = if rng.chance(1, 3) { rng.range(1, 2) as u8 } else { 0 };
        // (a prefill through fetch_or_append costs n^2 / 2 comparisons: only up to 9000 values)
        Trace { ctor, prefill_by_fetch: prefill_by_fetch && prefill > 0 && prefill <= 9000, huge_elem, enum_elem: !zst && kind < 2, big_elem: !zst && kind == 2, ne_mode: if rng.chance(1, 6) { rng.range(1, 2) as u8 } else { 0 }, prefill, zst, relation, unwind_at: if zst || prefill > 0 { None } else { unwind_at }, ops }
    }

    fn execute(t: &Trace, cov: &mut Cov) -> RunOut {
        if t.zst {
            return execute_zst(t, cov);
        }
        NE_MODE.with(|m| m.set(t.ne_mode));
        if t.ne_mode != 0 {
            cov.hit("reached.ne_inconsistent_with_eq");
        }
        let r = if t.huge_elem == 1 {
            cov.hit("reached.element_larger_than_64KiB");
            run_history::<Huge<65_592>>(t, cov)
        } else if t.huge_elem == 3 {
            // more than 4 MiB per element: on a thread with a stack that can hold a few of them
            cov.hit("reached.element_larger_than_4MiB");
            let mode = t.ne_mode;
            std::thread::scope(|sc| {
                std::thread::Builder::new()
                    .stack_size(256 << 20)
                    .spawn_scoped(sc, || {
                        NE_MODE.with(|m| m.set(mode));
                        run_history::<Huge<4_194_312>>(t, cov)
                    })
                    .expect("spawn")
                    .join()
                    .expect("history thread")
            })
        } else if t.huge_elem >= 2 {
            cov.hit("reached.element_larger_than_1MiB");
            run_history::<Huge<1_048_592>>(t, cov)
        } else if t.enum_elem {
            cov.hit("reached.enum_element_type");
            run_history::<E>(t, cov)
        } else if t.big_elem {
            cov.hit("reached.element_larger_than_cache_line");
            run_history::<Big>(t, cov)
        } else {
            run_history::<V>(t, cov)
        };
        NE_MODE.with(|m| m.set(0));
        r
    }

    fn shrink(t: &Trace) -> Vec<Trace> {
        let mut out = vec![];
        if t.unwind_at.is_some() {
            let mut c = t.clone();
            c.unwind_at = None;
            out.push(c);
        }
        if t.relation != Relation::ByClass {
            let mut c = t.clone();
            c.relation = Relation::ByClass;
            out.push(c);
        }
        if t.enum_elem || t.big_elem || t.huge_elem != 0 {
            let mut c = t.clone();
            c.enum_elem = false;
            c.big_elem = false;
            c.huge_elem = 0;
            out.push(c);
        }
        if t.huge_elem >= 2 {
            let mut c = t.clone();
            c.huge_elem = t.huge_elem - 1;
            out.push(c);
        }
        if t.ne_mode != 0 {
            let mut c = t.clone();
            c.ne_mode = 0;
            out.push(c);
        }
        if t.ctor != 0 {
            let mut c = t.clone();
            c.ctor = 0;
            out.push(c);
        }
        if t.prefill_by_fetch {
            let mut c = t.clone();
            c.prefill_by_fetch = false;
            out.push(c);
        }
        if t.prefill > 0 {
            for p in [0, t.prefill / 2, t.prefill - 1] {
                if p != t.prefill {
                    let mut c = t.clone();
                    c.prefill = p;
                    out.push(c);
                }
            }
        }
        let n = t.ops.len();
        if n > 1 {
            let mut c = t.clone();
            c.ops.truncate(n / 2);
            out.push(c);
            let mut c = t.clone();
            c.ops.drain(..n / 2);
            out.push(c);
        }
        for i in 0..n {
            let mut c = t.clone();
            c.ops.remove(i);
            out.push(c);
        }
        for i in 0..n {
            match t.ops[i] {
                Op::Append(c0) | Op::Fetch(c0) if c0 > 0 => {
                    let mut c = t.clone();
                    c.ops[i] = match t.ops[i] {
                        Op::Append(_) => Op::Append(c0 - 1),
                        _ => Op::Fetch(c0 - 1),
                    };
                    out.push(c);
                }
                _ => {}
            }
        }
        out
    }

    /// every operation must return its token
    fn crash_is_violation() -> bool {
        true
    }

    fn meta() -> Meta {
        Meta {
            level: "exploration",
            rule: "each run is a seeded history of 1-40 append/fetch_or_append/lookup operations on one Storage under one equality relation (by-class, NaN-like, non-transitive) with an optional unwinding comparison; the abstract trace is the sequence of (operation, outcome: appended/found/unwound); a run is non-trivial if it appended >= 3 values or its unwind fault fired; distinct = distinct abstract traces among non-trivial runs",
            lanes: "element types: struct, two-variant enum, zero-sized, 136-byte, 65 600-byte (1/1500 runs), 1 MiB+ and 4 MiB+ (1/18000 runs each); irreflexive relation; `ne` inconsistent with `eq`; storages built by new(), default() or left behind by mem::take; storages pre-filled (by append or by fetch_or_append) with 60..300 (1/60 runs), 3e3..9e3 (1/400 runs) and 2^16..1.1e6 (1/6000 runs; even and odd lengths; a duplicate of the middle value appended on top and fetched) values",
            triple_measure: "(relation, operation, outcome)",
            item_measure: "n/a",
            assumptions: &[
                "equality relations used are symmetric (the statement does not fix the direction of the comparison)",
                "after an unwinding comparison only the weak post-condition (earlier tokens stable, at most the pending value added) is required",
            ],
            real_components: &["rspirv::sr::storage::Storage (append, fetch_or_append, Index)", "rspirv::sr::storage::Token::index"],
            simulated_components: &["stored value type and its PartialEq relation (the fault surface)", "Vec reference model"],
            fault_kinds: &["eq_unwinds"],
        }
    }
}
