//! C03 — the parser accepts exactly the grammar and reports the first malformed
//! instruction.  Producer stream -> faulty byte medium -> real parser with a
//! recording consumer; judged against the reference acceptor run on the
//! post-fault bytes.  Per seeded base stream a share of runs sweeps every
//! truncation offset and every word-count / operand-drop / operand-extra variant
//! of one instruction (fault enumeration).

use crate::acceptor::{accept, Class, Outcome};
use crate::core::*;
use crate::faults::{self, Fault};
use crate::guard::GuardedBuf;
use crate::layout::class_of;
use crate::model::*;
use crate::producer::{gen_stream, ProdCfg};
use crate::real::{classify, Event, RealClass, Recorder};
use crate::rng::Rng;
use crate::snapshot::snap;
use rspirv::binary::{parse_bytes, parse_words};
use serde::{Deserialize, Serialize};

#[derive(Clone, Debug, Serialize, Deserialize, PartialEq)]
pub enum Sweep {
    None,
    /// every variant of the enumeration for instruction j
    All(usize),
    /// only variant number i of the enumeration for instruction j
    Only(usize, usize),
    /// light sweep: for EVERY instruction one surplus word behind its operands and its last word missing
    Light,
    /// only variant number i of the light sweep
    LightOnly(usize),
}

#[derive(Clone, Debug, Serialize, Deserialize)]
pub struct Trace {
    pub stream: Stream,
    pub faults: Vec<Fault>,
    pub sweep: Sweep,
    pub words_entry: bool,
}

pub struct C03;

fn opname(op: u16) -> String {
    snap().inst(op).map(|g| g.name.clone()).unwrap_or_else(|| format!("#{}", op))
}

/// One judged parse. Returns (violation, outcome code, rejected-op layout code).
pub fn judge(prop: &str, bytes: &[u8], words_entry: bool, step: usize, cov: &mut Cov) -> (Option<Violation>, u32, u32) {
    let v = accept(bytes);
    let gb = GuardedBuf::new(bytes, true);
    let mut rec = Recorder::passive(bytes.len() / 4 + 8);
    let res = guarded(|| match gb.words() {
        Some(w) if words_entry => parse_words(w, &mut rec),
        _ => parse_bytes(gb.bytes(), &mut rec),
    });
    cov.hit("steps");
    cov.add("bytes_parsed", bytes.len() as u64);
    let delivered: Vec<&MInst> = rec.insts();
    cov.add("callbacks", rec.log.len() as u64);
    if v.saw_ctx64 {
        cov.hit("reached.literal_64bit");
    }
    let clause = |c: &str| format!("{}.{}", prop, c);
    let mk = |c: &str, locus: String, detail: String| Some(Violation::new(&clause(c), locus, step, detail));

    let (ocode, lcode) = match &v.outcome {
        Outcome::Accept => (0u32, 0u32),
        Outcome::Reject(r) => (1 + r.classes[0] as u32, 1 + class_of(r.opcode).code()),
        Outcome::DontCare(_) => (15, 0),
    };

    // --- delivered prefix ------------------------------------------------------------
    let n_acc = v.insts.len();
    for (k, d) in delivered.iter().enumerate() {
        if k >= n_acc {
            break;
        }
        if **d != v.insts[k] {
            return (
                mk(
                    "prefix.instruction",
                    format!("op={}", v.insts[k].name()),
                    format!("instruction #{} delivered as [{}] but the grammar reads it as [{}]", k + 1, show(d), show(&v.insts[k])),
                ),
                ocode,
                lcode,
            );
        }
        cov.item(d.opcode as u32);
    }
    let definite = !matches!(v.outcome, Outcome::DontCare(_));
    if definite && delivered.len() > n_acc {
        let extra = delivered[n_acc];
        let what = match &v.outcome {
            Outcome::Reject(r) => format!("instruction #{} is malformed ({}: {})", r.index, r.classes[0].name(), r.sub),
            _ => "the stream ends there".to_string(),
        };
        return (
            mk(
                "prefix.no-surplus",
                format!("op={}", extra.name()),
                format!("consumer was handed [{}] as instruction #{} although {}", show(extra), n_acc + 1, what),
            ),
            ocode,
            lcode,
        );
    }
    // --- header event ------------------------------------------------------------------
    if let Some(h) = v.header {
        if rec.log.len() >= 2 && rec.log[1] != Event::Header(rec_version(h[1]), h[3]) {
            return (
                mk("header.delivered", "header".into(), format!("second callback is {:?}; expected the header with (major, minor) of version word {:#x} and bound {}", rec.log[1], h[1], h[3])),
                ocode,
                lcode,
            );
        }
    } else if rec.log.iter().any(|e| matches!(e, Event::Header(..) | Event::Inst(_))) {
        return (mk("header.rejected-but-delivered", "header".into(), "a header/instruction callback happened although the header is malformed".into()), ocode, lcode);
    }

    // --- outcome -----------------------------------------------------------------------
    match res {
        Err(pi) => {
            // which instruction was being parsed? the one after the delivered ones
            let judged = delivered.len() < n_acc || definite;
            if judged {
                let op = if delivered.len() < n_acc {
                    v.insts[delivered.len()].name()
                } else {
                    match &v.outcome {
                        Outcome::Reject(r) => opname(r.opcode),
                        _ => "end".into(),
                    }
                };
                return (mk("panic", format!("{} op={}", pi.locus(), op), pi.detail()), ocode, lcode);
            }
            cov.hit("reached.panic_in_dont_care_region");
            (None, ocode, lcode)
        }
        Ok(real) => {
            if delivered.len() < n_acc {
                let real_txt = match &real {
                    Ok(()) => "Ok".to_string(),
                    Err(e) => format!("{:?}", e),
                };
                return (
                    mk(
                        "prefix.complete",
                        format!("op={}", v.insts[delivered.len()].name()),
                        format!("only {} of {} well-formed leading instructions were delivered; first missing [{}]; parser returned {}", delivered.len(), n_acc, show(&v.insts[delivered.len()]), real_txt),
                    ),
                    ocode,
                    lcode,
                );
            }
            match (&v.outcome, real) {
                (Outcome::DontCare(_), _) => {
                    cov.hit("reached.dont_care");
                    (None, ocode, lcode)
                }
                (Outcome::Accept, Ok(())) => {
                    // finalize must have been the last callback
                    if rec.log.last() != Some(&Event::Finalize) {
                        return (mk("accept.finalize", "finalize".into(), "parse returned Ok but finalize was not the last callback".into()), ocode, lcode);
                    }
                    (None, ocode, lcode)
                }
                (Outcome::Accept, Err(e)) => (
                    mk("accept.rejected-valid", format!("got={:?}", classify(&e).class), format!("grammar-conforming binary ({} instructions) rejected with {:?}", n_acc, e)),
                    ocode,
                    lcode,
                ),
                (Outcome::Reject(r), Ok(())) => (
                    mk(
                        "reject.accepted-malformed",
                        format!("class={} op={}", r.classes[0].name(), opname(r.opcode)),
                        format!("binary accepted although instruction #{} (Op{}, bytes {}..{}) is malformed: {}", r.index, opname(r.opcode), r.start, r.end, r.sub),
                    ),
                    ocode,
                    lcode,
                ),
                (Outcome::Reject(r), Err(e)) => {
                    let c = classify(&e);
                    let got = match c.class {
                        RealClass::Grammar(g) => g,
                        other => {
                            return (mk("reject.class", format!("got={:?}", other), format!("expected a {} rejection, parser returned {:?}", r.classes[0].name(), e)), ocode, lcode);
                        }
                    };
                    if !r.classes.contains(&got) {
                        return (
                            mk(
                                "reject.class",
                                format!("expected={} got={} op={}", r.classes[0].name(), got.name(), opname(r.opcode)),
                                format!("instruction #{} (Op{}): {}; parser reported {}", r.index, opname(r.opcode), r.sub, c.text),
                            ),
                            ocode,
                            lcode,
                        );
                    }
                    // the rendered one-line message must name the same instruction number and offset as the value
                    if let (Some(i), Some(o)) = (c.index, c.offset) {
                        let msg = format!("{}", e);
                        if !msg.contains(&format!("#{} ", i)) && !msg.ends_with(&format!("#{}", i)) || !msg.contains(&format!("offset {}", o)) {
                            return (
                                mk("reject.message", format!("class={}", got.name()), format!("error value {} is rendered as {:?}: the message must name instruction #{} and offset {}", c.text, msg, i, o)),
                                ocode,
                                lcode,
                            );
                        }
                    }
                    if let Some(i) = c.index {
                        if i != r.index {
                            return (
                                mk("reject.instruction-number", format!("class={}", got.name()), format!("error {} names instruction #{} but the first malformed instruction is #{}", c.text, i, r.index)),
                                ocode,
                                lcode,
                            );
                        }
                    }
                    if let Some(o) = c.offset {
                        if r.index > 0 && (o < r.start || o > r.end) {
                            return (
                                mk("reject.offset", format!("class={}", got.name()), format!("error {} carries offset {} outside the malformed instruction's extent {}..={}", c.text, o, r.start, r.end)),
                                ocode,
                                lcode,
                            );
                        }
                    }
                    match got {
                        Class::Missing => cov.hit("reached.reject_missing"),
                        Class::Surplus => cov.hit("reached.reject_surplus"),
                        Class::Undecodable => cov.hit("reached.reject_undecodable"),
                        Class::UnknownOpcode => cov.hit("reached.reject_unknown_opcode"),
                        Class::ZeroWordCount => cov.hit("reached.reject_zero_wc"),
                        _ => cov.hit("reached.reject_header"),
                    }
                    if r.index > 2 {
                        cov.hit("reached.reject_beyond_second_instruction");
                    }
                    (None, ocode, lcode)
                }
            }
        }
    }
}

fn rec_version(w: u32) -> u32 {
    // the parser rebuilds the version word from (major, minor)
    w & 0x00ff_ff00
}

/// the enumeration of single-fault variants for instruction j of a stream
pub fn sweep_variants(stream: &Stream, base_faults: &[Fault], j: usize) -> Vec<Vec<Fault>> {
    let mut out: Vec<Vec<Fault>> = vec![];
    let (bytes, _) = faults::apply(stream, base_faults);
    // every truncation offset
    for k in 0..bytes.len() {
        let mut f = base_faults.to_vec();
        f.push(Fault::Trunc(k));
        out.push(f);
    }
    if let Some(inst) = stream.insts.get(j) {
        let ilen = inst_words(inst);
        let (words, starts) = stream.encode();
        let remaining = words.len() - starts[j];
        let mut wcs: Vec<usize> = (0..=ilen + 3).collect();
        wcs.extend([remaining, remaining + 1, 0xFFFF]);
        let mut front = |f: Fault| {
            let mut v = vec![f];
            v.extend_from_slice(base_faults);
            // frame-level faults must precede word-level ones
            v.sort_by_key(|f| f.code() > 10);
            out.push(v);
        };
        for wc in wcs {
            front(Fault::Wc(j, wc.min(0xFFFF) as u16));
        }
        for k in 1..ilen {
            front(Fault::OperandDrop(j, k));
        }
        for k in 1..=ilen {
            front(Fault::OperandExtra(j, k, 1));
            front(Fault::OperandExtra(j, k, 0xFFFF_FFFF));
        }
    }
    out
}

/// one surplus word behind the operands of each instruction (0 / all ones, alternating) and each instruction's last
/// word missing: the property's single-fault quantifier applied to every instruction of a small stream
pub fn light_variants(stream: &Stream, base_faults: &[Fault]) -> Vec<Vec<Fault>> {
    let mut out: Vec<Vec<Fault>> = vec![];
    let mut front = |f: Fault| {
        let mut v = vec![f];
        v.extend_from_slice(base_faults);
        v.sort_by_key(|f| f.code() > 10);
        out.push(v);
    };
    for (j, inst) in stream.insts.iter().enumerate() {
        let ilen = inst_words(inst);
        front(Fault::OperandExtra(j, ilen, if j % 2 == 0 { 0 } else { 0xFFFF_FFFF }));
        if ilen > 1 {
            front(Fault::OperandDrop(j, ilen - 1));
        }
    }
    out
}

impl Property for C03 {
    type Trace = Trace;
    const ID: &'static str = "C03";

    fn runs(tier: Tier) -> u64 {
        match tier {
            Tier::Quick => 500_000,
            Tier::Thorough => 50_000_000,
        }
    }

    fn generate(rng: &mut Rng, _tier: Tier) -> Trace {
        let mut cfg = ProdCfg::parser_default(rng);
        cfg.giant = true;
        let stream = gen_stream(rng, cfg);
        let fault_free = rng.chance(15, 100);
        let faults = if fault_free {
            vec![]
        } else {
            let mut enabled = rng.u32() | rng.u32();
            if enabled & faults::ALL_FAULTS == 0 {
                enabled = faults::ALL_FAULTS;
            }
            let n = rng.range(1, 3) as usize;
            faults::gen_faults(rng, &stream, n, enabled)
        };
        let small = stream.insts.len() < 64 && stream.insts.iter().all(|i| i.ops.len() < 64 && i.ops.iter().all(|o| !matches!(o, MOp::S(st) if st.len() > 256)));
        let sweep = if small && rng.chance(1, 25) && !stream.insts.is_empty() {
            Sweep::All(rng.usize_below(stream.insts.len()))
        } else if small && rng.chance(1, 5) && !stream.insts.is_empty() {
            Sweep::Light
        } else {
            Sweep::None
        };
        Trace {
            stream,
            faults,
            sweep,
            words_entry: rng.chance(1, 2),
        }
    }

    fn execute(t: &Trace, cov: &mut Cov) -> RunOut {
        let (bytes, fired) = faults::apply(&t.stream, &t.faults);
        for f in &fired {
            cov.hit(f);
        }
        let mut h = AbsHash::new();
        for f in &t.faults {
            h.push(100, f.code());
        }
        let (mut viol, ocode, lcode) = judge(Self::ID, &bytes, t.words_entry, 0, cov);
        h.push(ocode, lcode);
        h.push(t.stream.insts.len() as u32, 0);
        let fcode = t.faults.first().map(|f| f.code()).unwrap_or(0);
        cov.triple(fcode, lcode, ocode);
        let mut sweeps = 0u64;
        if viol.is_none() {
            let variants: Vec<(usize, Vec<Fault>)> = match &t.sweep {
                Sweep::None => vec![],
                Sweep::All(j) => sweep_variants(&t.stream, &t.faults, *j).into_iter().enumerate().collect(),
                Sweep::Only(j, i) => sweep_variants(&t.stream, &t.faults, *j).into_iter().enumerate().filter(|(k, _)| k == i).collect(),
                Sweep::Light => light_variants(&t.stream, &t.faults).into_iter().enumerate().collect(),
                Sweep::LightOnly(i) => light_variants(&t.stream, &t.faults).into_iter().enumerate().filter(|(k, _)| k == i).collect(),
            };
            for (i, fl) in variants {
                let (b, fired) = faults::apply(&t.stream, &fl);
                if let Some(last) = fired.last() {
                    cov.hit(last);
                }
                sweeps += 1;
                let (v2, oc, lc) = judge(Self::ID, &b, t.words_entry, i + 1, cov);
                cov.triple(fl.last().map(|f| f.code()).unwrap_or(0), lc, oc);
                if v2.is_some() {
                    viol = v2;
                    break;
                }
            }
            cov.add("sweep_variants", sweeps);
        }
        RunOut {
            violation: viol,
            abs_hash: h.0,
            nontrivial: !fired.is_empty() || t.stream.insts.len() >= 3,
        }
    }

    fn shrink(t: &Trace) -> Vec<Trace> {
        shrink_stream_trace(t)
    }

    fn meta() -> Meta {
        Meta {
            level: "fault_enumeration",
            rule: "each run is a seeded grammar-directed module (0-24 instructions over all 787 opcodes) pushed through 0-3 seeded faults of the byte medium (15% fault-free) and parsed by the real parser with a recording consumer; 1 run in 25 additionally enumerates every truncation offset of the post-fault bytes and every word-count / operand-drop / operand-extra variant of one instruction; abstract trace = (fault kinds, predicted outcome class, layout class of the rejected opcode, stream length); non-trivial = a fault fired or >= 3 instructions; distinct = distinct abstract traces among non-trivial runs",
            lanes: "rendered message must agree with the error value; boundary ids; BOM / LF / invalid-UTF-8 string bytes; MAGIC as a fault value; rare giant features (sweeps disabled on them); opcode faults 0 / last+1 / +-1 around declared opcodes; surplus payload on operand-less instructions; zero padding behind the module; dense ids across 2^k boundaries; header dictionaries (generator tool ids, version 0.99); light sweep (1 run in 5): one surplus word and one missing last word on every instruction; every byte order of the magic number; SpecConstantOp naming special-kind opcodes; sparse-id lane (600..8000 type ids scattered over the 32-bit space, each consumed); type-aware literal specials; id-collision faults; ids defined twice; spec-op numbers written like a first word",
            triple_measure: "(fault kind, layout class of first malformed opcode, predicted outcome class)",
            item_measure: "opcodes delivered to the consumer and matched against the model (of 787)",
            assumptions: &[
                "grammar = frozen snapshot of the pinned tree's three generated views (the Khronos JSON is not in the tree)",
                "not judged (DontCare): a trailing 1-3 byte fragment where an instruction would start; OpSpecConstantOp nesting an opcode with optional/variadic/composite operands; literals typed by an id defined more than once",
                "an instruction whose declared extent reaches past the end of the stream may be reported as missing or as surplus operands",
                "offsets are accepted anywhere in [start, start + 4*wc] of the first malformed instruction (the repository's own tests pin offsets at the extent end)",
            ],
            real_components: &["binary::Parser / parse_bytes / parse_words", "binary::Decoder", "binary::tracker::TypeTracker", "grammar tables"],
            simulated_components: &["producer (reference encoder)", "byte medium + fault injector", "recording consumer", "reference acceptor + type context"],
            fault_kinds: faults::FAULT_KINDS,
        }
    }
}

/// Shared shrinker for traces of shape {stream, faults, sweep}.
pub fn shrink_stream_trace(t: &Trace) -> Vec<Trace> {
    let mut out = vec![];
    // pin a sweep to a single variant (tried in order)
    if let Sweep::All(j) = t.sweep {
        let n = sweep_variants(&t.stream, &t.faults, j).len();
        for i in 0..n {
            let mut c = t.clone();
            c.sweep = Sweep::Only(j, i);
            out.push(c);
        }
        return out;
    }
    if t.sweep == Sweep::Light {
        let n = light_variants(&t.stream, &t.faults).len();
        for i in 0..n {
            let mut c = t.clone();
            c.sweep = Sweep::LightOnly(i);
            out.push(c);
        }
        return out;
    }
    if let Sweep::LightOnly(i) = t.sweep {
        let vs = light_variants(&t.stream, &t.faults);
        if let Some(fl) = vs.get(i) {
            let mut c = t.clone();
            c.sweep = Sweep::None;
            c.faults = fl.clone();
            out.push(c);
        }
        return out;
    }
    if let Sweep::Only(j, i) = t.sweep {
        // materialise the variant as explicit faults
        let vs = sweep_variants(&t.stream, &t.faults, j);
        if let Some(fl) = vs.get(i) {
            let mut c = t.clone();
            c.sweep = Sweep::None;
            c.faults = fl.clone();
            out.push(c);
        }
        return out;
    }
    for fl in faults::shrink_faults(&t.faults) {
        let mut c = t.clone();
        c.faults = fl;
        out.push(c);
    }
    let n = t.stream.insts.len();
    if n > 1 && n <= 300 {
        // drop the second half / first half
        for (a, b) in [(n / 2, n), (0, n / 2)] {
            let mut c = t.clone();
            let mut fl = t.faults.clone();
            for j in (a..b).rev() {
                c.stream.insts.remove(j);
                fl = faults::reindex_after_remove(&fl, j);
            }
            c.faults = fl;
            out.push(c);
        }
    }
    for (a, b) in shrink_chunks(n) {
        let mut c = t.clone();
        c.stream.insts.drain(a..b);
        c.faults.clear();
        out.push(c);
    }
    for j in shrink_indices(n) {
        let mut c = t.clone();
        c.stream.insts.remove(j);
        c.faults = faults::reindex_after_remove(&t.faults, j);
        out.push(c);
    }
    // simplify operands: strings -> "", drop trailing operand
    for j in 0..n.min(300) {
        let inst = &t.stream.insts[j];
        for (k, o) in inst.ops.iter().enumerate() {
            if let MOp::S(s) = o {
                if !s.is_empty() {
                    let mut c = t.clone();
                    c.stream.insts[j].ops[k] = MOp::S(String::new());
                    out.push(c);
                }
            }
        }
    }
    if t.words_entry {
        let mut c = t.clone();
        c.words_entry = false;
        out.push(c);
    }
    out
}
