pub mod c11;
pub mod c19;
