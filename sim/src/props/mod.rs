pub mod c03;
pub mod c04;
pub mod c10;
pub mod c11;
pub mod c14;
pub mod c19;
