//! C01 — load-then-assemble reproduces every instruction of the input binary.
//! producer model -> legally *reordering* medium (module-level instructions moved
//! anywhere, sections permuted, parameters moved behind blocks, string padding
//! and spare version bytes randomised) -> real parser+loader -> real assembler
//! -> real loader again.  Oracle: conservation / exactly-once / stable order per
//! section, function and block, word for word against the reference encoder.

use crate::acceptor::{accept, Outcome};
use crate::core::*;
use crate::guard::GuardedBuf;
use crate::layout::{self, Automaton, Lc};
use crate::modcmp::{flatten, real_modules_equal};
use crate::model::*;
use crate::producer::{gen_stream, ProdCfg};
use crate::rng::Rng;
use crate::snapshot::snap;
use rspirv::binary::Assemble;
use rspirv::dr;
use serde::{Deserialize, Serialize};

#[derive(Clone, Debug, Serialize, Deserialize)]
pub struct Trace {
    /// instructions in INPUT order (after the reordering medium)
    pub stream: Stream,
    /// legal reorderings applied by the medium at generation time (evidence counters)
    pub reorders: Vec<String>,
    /// post-NUL padding bytes of strings in the input are filled from this seed (None: zeros)
    pub pad_seed: Option<u32>,
    /// bytes 0 and 3 of the version word (unused by SPIR-V)
    pub version_spare: (u8, u8),
    pub words_entry: bool,
    /// storage fault inside a string: byte `1` (index into the string's bytes) of the first string operand of
    /// instruction `0` is overwritten with `2` (an invalid UTF-8 byte). If the loader still accepts the binary the
    /// guarantee applies to the corrupted bytes as they are.
    #[serde(default)]
    pub corrupt: Option<(usize, usize, u8)>,
    /// faults that make the input ill-bracketed or ungrammatical: the loader should reject it; if it accepts,
    /// conservation (no instruction dropped, duplicated, invented or re-encoded differently) still applies
    #[serde(default)]
    pub extra: Vec<Extra>,
}

#[derive(Clone, Debug, Serialize, Deserialize)]
pub enum Extra {
    /// a stray instruction inserted at this position of the stream
    Stray(usize, MInst),
    /// word `1` of instruction `0` overwritten (an undeclared enumerant / mask bit)
    Word(usize, usize, u32),
}

/// word index and byte shift of byte `b` of the first string operand of `i` (relative to the instruction start)
fn string_byte_pos(i: &MInst, b: usize) -> Option<(usize, u32)> {
    let mut w = 1 + i.rtype.is_some() as usize + i.rid.is_some() as usize;
    for o in &i.ops {
        match o {
            MOp::S(s) => {
                if s.is_empty() {
                    return None;
                }
                let b = b % s.len();
                return Some((w + b / 4, 8 * (b % 4) as u32));
            }
            MOp::L64(_) => w += 2,
            MOp::W(..) => w += 1,
        }
    }
    None
}

pub struct C01;

impl Trace {
    /// the header's id bound is just a word to the loader and assembler: boundary values must be carried too
    fn with_boundary_bound(mut self, rng: &mut Rng) -> Trace {
        if rng.chance(1, 25) {
            self.stream.header.bound = *rng.pick(&[0u32, 0, 1, 2, 0x7FFF_FFFF, 0x8000_0000, 0xFFFF_FFFF]);
        }
        self
    }
    fn with_extra(mut self, rng: &mut Rng) -> Trace {
        let s = snap();
        if !rng.chance(1, 8) || self.stream.insts.is_empty() {
            return self;
        }
        if rng.chance(1, 5) {
            // the medium delivers one instruction twice in a row (both copies must come back)
            let j = rng.usize_below(self.stream.insts.len());
            let copy = self.stream.insts[j].clone();
            self.extra.push(Extra::Stray(j + 1, copy));
            return self;
        }
        if rng.chance(1, 4) {
            // an OpLine / OpNoLine inside a function but outside any block (where the data representation has no place
            // for it), directly followed by a stray body instruction: the loader must reject that instruction
            let anchors: Vec<usize> = self
                .stream
                .insts
                .iter()
                .enumerate()
                .filter(|(k, i)| {
                    let c = layout::class_of(i.opcode);
                    let next_is_fn_end_or_label = self.stream.insts.get(k + 1).map(|n| matches!(layout::class_of(n.opcode), Lc::Label | Lc::FunctionEnd | Lc::Parameter)).unwrap_or(false);
                    matches!(c, Lc::Function | Lc::Parameter) || (c == Lc::Terminator && next_is_fn_end_or_label)
                })
                .map(|(k, _)| k + 1)
                .collect();
            if !anchors.is_empty() {
                let at = *rng.pick(&anchors);
                let line = if rng.chance(2, 3) {
                    MInst { opcode: s.op("Line"), rtype: None, rid: None, ops: vec![MOp::W(s.k_idref, 1), MOp::W(s.k_lit32, rng.below(50) as u32), MOp::W(s.k_lit32, rng.below(50) as u32)] }
                } else {
                    MInst { opcode: s.op("NoLine"), rtype: None, rid: None, ops: vec![] }
                };
                let body = match rng.below(3) {
                    0 => MInst { opcode: s.op("Nop"), rtype: None, rid: None, ops: vec![] },
                    1 => MInst { opcode: s.op("Store"), rtype: None, rid: None, ops: vec![MOp::W(s.k_idref, 1), MOp::W(s.k_idref, 2)] },
                    _ => MInst { opcode: s.op("IAdd"), rtype: Some(1), rid: Some(self.stream.header.bound.wrapping_add(40)), ops: vec![MOp::W(s.k_idref, 1), MOp::W(s.k_idref, 2)] },
                };
                self.extra.push(Extra::Stray(at, line));
                self.extra.push(Extra::Stray(at + 1, body));
                return self;
            }
        }
        if rng.chance(1, 2) {
            // stray structural instruction, biased to module level (front / back) and bracket boundaries
            let op = *rng.pick(&["FunctionEnd", "FunctionEnd", "Label", "Return", "FunctionParameter", "Function", "Unreachable", "Nop", "IAdd"]);
            let g = s.inst_named(op);
            let mut cfg = ProdCfg::parser_default(rng);
            cfg.max_variadic = 1;
            let mut gen = crate::producer::Gen::new(rng, cfg);
            gen.next_id = self.stream.header.bound + 30;
            let inst = gen.inst(g.opcode);
            let n = self.stream.insts.len();
            let at = match gen.rng.below(4) {
                0 => 0,
                1 => n,
                _ => gen.rng.usize_below(n + 1),
            };
            self.extra.push(Extra::Stray(at, inst));
        } else {
            // an undeclared number in an enumerant / mask operand of some instruction
            let mut cands: Vec<(usize, usize, u32)> = vec![];
            for (j, i) in self.stream.insts.iter().enumerate() {
                let mut w = 1 + i.rtype.is_some() as usize + i.rid.is_some() as usize;
                for o in &i.ops {
                    match o {
                        MOp::W(k, _) => {
                            if let Some(e) = s.enums.get(k) {
                                cands.push((j, w, *e.numbers.last().unwrap() + 1));
                            } else if let Some(m) = s.masks.get(k) {
                                cands.push((j, w, !m.all));
                            }
                            w += 1;
                        }
                        MOp::L64(_) => w += 2,
                        MOp::S(st) => w += string_words(st),
                    }
                }
            }
            if !cands.is_empty() {
                let (j, w, v) = *rng.pick(&cands);
                let v = if rng.chance(1, 2) { v } else { v.wrapping_add(rng.below(1000) as u32) };
                self.extra.push(Extra::Word(j, w, v));
            }
        }
        self
    }
    fn with_corruption(mut self, rng: &mut Rng) -> Trace {
        if rng.chance(1, 10) {
            let with_str: Vec<usize> = self.stream.insts.iter().enumerate().filter(|(_, i)| i.ops.iter().any(|o| matches!(o, MOp::S(s) if !s.is_empty()))).map(|(k, _)| k).collect();
            if !with_str.is_empty() {
                self.corrupt = Some((*rng.pick(&with_str), rng.usize_below(64), *rng.pick(&[0xFFu8, 0xC0, 0xE2, 0x80, 0xF8])));
            }
        }
        self
    }
}

/// reference encoding plus a care-mask (0 bits = don't care: bytes after a string's NUL)
fn encode_with_mask(i: &MInst, pad: &mut Option<u32>, out: &mut Vec<u32>, mask: &mut Vec<u32>) {
    let start = out.len();
    out.push(0);
    mask.push(!0);
    for r in [i.rtype, i.rid].into_iter().flatten() {
        out.push(r);
        mask.push(!0);
    }
    for o in &i.ops {
        match o {
            MOp::S(s) => {
                let before = out.len();
                encode_string(s, out);
                for _ in before..out.len() {
                    mask.push(!0);
                }
                let used = s.len() % 4; // bytes of the last word before the NUL
                let care: u32 = if used == 3 { !0 } else { (1u32 << (8 * (used + 1))) - 1 };
                let last = out.len() - 1;
                mask[last] = care;
                if let Some(p) = pad {
                    // fill the don't-care bytes with non-zero junk
                    *p = p.wrapping_mul(1664525).wrapping_add(1013904223);
                    let junk = (*p | 0x0101_0101) & !care;
                    out[last] |= junk;
                }
            }
            other => {
                let before = out.len();
                encode_op(other, out);
                for _ in before..out.len() {
                    mask.push(!0);
                }
            }
        }
    }
    let wc = (out.len() - start) as u32;
    out[start] = (wc << 16) | i.opcode as u32;
}

fn selector_ids(insts: &[MInst]) -> Vec<u32> {
    insts
        .iter()
        .filter(|i| i.is("Switch"))
        .filter_map(|i| match i.ops.first() {
            Some(MOp::W(_, v)) => Some(*v),
            _ => None,
        })
        .collect()
}

impl Property for C01 {
    type Trace = Trace;
    const ID: &'static str = "C01";

    fn runs(tier: Tier) -> u64 {
        match tier {
            Tier::Quick => 500_000,
            Tier::Thorough => 50_000_000,
        }
    }

    fn generate(rng: &mut Rng, _tier: Tier) -> Trace {
        let cfg = ProdCfg {
            max_insts: rng.range(3, 24) as usize,
            allow_other: false,
            max_funcs: 2,
            exotic_strings: rng.range(0, 6),
            spec_ops: true,
            ctx_dependent: true,
            max_variadic: rng.range(0, 3),
            giant: true,
        };
        let mut stream = gen_stream(rng, cfg);
        if rng.chance(1, 6) {
            // OpExtInst of a known / non-semantic / unknown set inside a block (it must stay there)
            crate::producer::plant_ext_inst(rng, &mut stream);
        }
        let mut reorders = vec![];
        let style = rng.below(4); // 0: keep layout order
        if style != 0 {
            let n = stream.insts.len();
            let first_fn = stream.insts.iter().position(|i| layout::class_of(i.opcode) == Lc::Function).unwrap_or(n);
            // (1) module-level instructions of sections 0..=9 moved anywhere (also between / inside functions and blocks)
            let nmoves = rng.below(4);
            for _ in 0..nmoves {
                let movable: Vec<usize> = stream
                    .insts
                    .iter()
                    .enumerate()
                    .filter(|(_, i)| matches!(layout::class_of(i.opcode), Lc::Section(s) if s <= 9))
                    .map(|(k, _)| k)
                    .collect();
                if movable.is_empty() {
                    break;
                }
                let from = *rng.pick(&movable);
                let x = stream.insts.remove(from);
                let to = rng.usize_below(stream.insts.len() + 1);
                stream.insts.insert(to, x);
                reorders.push("fault.reorder_module_level_anywhere".to_string());
            }
            // (2) sections permuted: shuffle the module-level prefix, keeping section-10 relative order
            if rng.chance(1, 2) && first_fn > 1 {
                let first_fn = stream.insts.iter().position(|i| layout::class_of(i.opcode) == Lc::Function).unwrap_or(stream.insts.len());
                let prefix: Vec<MInst> = stream.insts.drain(..first_fn).collect();
                let (types, mut others): (Vec<MInst>, Vec<MInst>) = prefix.into_iter().partition(|i| {
                    matches!(layout::class_of(i.opcode), Lc::Section(10) | Lc::Variable | Lc::Undef | Lc::Line)
                });
                rng.shuffle(&mut others);
                // interleave: types keep their order
                let mut merged = vec![];
                let (mut a, mut b) = (types.into_iter().peekable(), others.into_iter().peekable());
                while a.peek().is_some() || b.peek().is_some() {
                    if b.peek().is_none() || (a.peek().is_some() && rng.chance(1, 2)) {
                        merged.push(a.next().unwrap());
                    } else {
                        merged.push(b.next().unwrap());
                    }
                }
                merged.append(&mut stream.insts);
                stream.insts = merged;
                reorders.push("fault.reorder_sections_permuted".to_string());
            }
            // (4) a declaration (section 10, not an int/float type: literal widths stay put) moved INTO a block, half of
            // the time right behind an OpLine placed there; it is hoisted on loading, the line stays in the block
            if rng.chance(1, 3) {
                let decls: Vec<usize> = stream
                    .insts
                    .iter()
                    .enumerate()
                    .filter(|(_, i)| layout::class_of(i.opcode) == Lc::Section(10) && !i.is("TypeInt") && !i.is("TypeFloat"))
                    .map(|(k, _)| k)
                    .collect();
                if !decls.is_empty() {
                    let from = *rng.pick(&decls);
                    let x = stream.insts.remove(from);
                    // positions inside blocks: behind a label or a block instruction, in front of something of the same block
                    let inside: Vec<usize> = (1..stream.insts.len())
                        .filter(|k| matches!(layout::class_of(stream.insts[*k - 1].opcode), Lc::Label | Lc::Block) && matches!(layout::class_of(stream.insts[*k].opcode), Lc::Block | Lc::Terminator))
                        .collect();
                    if inside.is_empty() {
                        stream.insts.insert(from, x);
                    } else {
                        let to = *rng.pick(&inside);
                        stream.insts.insert(to, x);
                        if rng.chance(1, 2) {
                            let s = snap();
                            let line = MInst { opcode: s.op("Line"), rtype: None, rid: None, ops: vec![MOp::W(s.k_idref, 1), MOp::W(s.k_lit32, rng.below(100) as u32), MOp::W(s.k_lit32, rng.below(100) as u32)] };
                            stream.insts.insert(to, line);
                        }
                        reorders.push("fault.reorder_declaration_into_block".to_string());
                    }
                }
            }
            // (3) an OpFunctionParameter moved behind the blocks of its function
            if rng.chance(1, 2) {
                let sels = selector_ids(&stream.insts);
                let params: Vec<usize> = stream
                    .insts
                    .iter()
                    .enumerate()
                    .filter(|(_, i)| layout::class_of(i.opcode) == Lc::Parameter && !i.rid.map(|r| sels.contains(&r)).unwrap_or(false))
                    .map(|(k, _)| k)
                    .collect();
                if !params.is_empty() {
                    let from = *rng.pick(&params);
                    // the OpFunctionEnd that closes this function
                    if let Some(end) = (from..stream.insts.len()).find(|k| layout::class_of(stream.insts[*k].opcode) == Lc::FunctionEnd) {
                        // must stay outside blocks: place right before OpFunctionEnd (after the last terminator)
                        // but only if no value typed by this parameter feeds a switch selector (kept simple: rid unused as selector)
                        let x = stream.insts.remove(from);
                        stream.insts.insert(end - 1, x);
                        reorders.push("fault.reorder_parameter_behind_blocks".to_string());
                    }
                }
            }
        }
        Trace {
            stream,
            reorders,
            pad_seed: if rng.chance(1, 2) { Some(rng.u32()) } else { None },
            version_spare: if rng.chance(1, 3) { (rng.below(256) as u8, rng.below(256) as u8) } else { (0, 0) },
            words_entry: rng.chance(1, 2),
            corrupt: None,
            extra: vec![],
        }
        .with_corruption(rng)
        .with_extra(rng)
        .with_boundary_bound(rng)
    }

    fn execute(t: &Trace, cov: &mut Cov) -> RunOut {
        let s = snap();
        let mut h = AbsHash::new();
        for r in &t.reorders {
            cov.hit_dyn(r.clone());
            h.push_str(r);
        }
        cov.hit("steps");
        // ---- input bytes (producer's own encoding, junk in the don't-care bytes) -------------
        let version_in = (t.stream.header.version & 0x00ff_ff00) | t.version_spare.0 as u32 | ((t.version_spare.1 as u32) << 24);
        let mut words: Vec<u32> = vec![MAGIC, version_in, t.stream.header.generator, t.stream.header.bound, t.stream.header.schema];
        let mut mask_in = vec![!0u32; 5];
        let mut pad = t.pad_seed;
        // the stream as the medium delivers it: stray instructions inserted (string corruption and word
        // corruption are applied further down / here by original instruction index)
        let mut delivered: Vec<(MInst, Option<(usize, u32)>)> = t.stream.insts.iter().map(|i| (i.clone(), None)).collect();
        for e in &t.extra {
            if let Extra::Word(j, w, v) = e {
                if let Some(d) = delivered.get_mut(*j) {
                    d.1 = Some((*w, *v));
                }
            }
        }
        let mut stray_shift: Vec<usize> = vec![];
        for e in &t.extra {
            if let Extra::Stray(at, inst) = e {
                let at = (*at).min(delivered.len());
                delivered.insert(at, (inst.clone(), None));
                stray_shift.push(at);
                cov.hit("fault.stray_instruction_inserted");
            }
        }
        let mut frame_starts: Vec<usize> = vec![];
        for (i, patch) in &delivered {
            let st = words.len();
            frame_starts.push(st);
            encode_with_mask(i, &mut pad, &mut words, &mut mask_in);
            if let Some((w, v)) = patch {
                if st + w < words.len() {
                    words[st + w] = *v;
                    cov.hit("fault.enumerant_word_corrupted");
                }
            }
        }
        let has_extra = !t.extra.is_empty();
        if t.pad_seed.is_some() {
            cov.hit("fault.string_padding_randomised");
        }
        if t.version_spare != (0, 0) {
            cov.hit("fault.version_spare_bytes_randomised");
        }
        let clean_bytes = words_to_bytes(&words);
        // storage fault inside a string (applied to the input the real code sees)
        let mut corrupt_at: Option<(usize, usize, u32, u32)> = None; // (inst, word in inst, shift, byte)
        if let Some((j, b, v)) = t.corrupt {
            if let Some(inst) = t.stream.insts.get(j) {
                if let Some((w, sh)) = string_byte_pos(inst, b) {
                    let shifted = j + stray_shift.iter().filter(|at| **at <= j).count();
                    let start = frame_starts[shifted.min(frame_starts.len() - 1)];
                    words[start + w] = (words[start + w] & !(0xFF << sh)) | ((v as u32) << sh);
                    corrupt_at = Some((shifted, w, sh, v as u32));
                    cov.hit("fault.string_byte_corrupted");
                }
            }
        }
        let bytes = words_to_bytes(&words);
        let nontrivial = t.stream.insts.len() >= 3;
        for i in &t.stream.insts {
            h.push(layout::class_of(i.opcode).code(), 0);
        }
        let out = |v: Option<Violation>, h: &AbsHash| RunOut {
            violation: v,
            abs_hash: h.0,
            nontrivial,
        };
        let mk = |c: &str, locus: String, step: usize, d: String| Some(Violation::new(&format!("C01.{}", c), locus, step, d));


        // ---- weak lane: inputs that are not grammar-valid / well-bracketed. The loader should reject them; if it
        // accepts one anyway, the guarantee still says: exactly the input's instructions come back.
        let weak_lane = |why: &'static str, cov: &mut Cov, h: &AbsHash| -> RunOut {
            cov.hit(why);
            let gb = GuardedBuf::new(&bytes, true);
            let module = match guarded(|| dr::load_bytes(gb.bytes())) {
                Ok(Ok(m)) => m,
                _ => return out(None, h), // rejected (or panicked: C04's clause)
            };
            cov.hit("reached.ungrammatical_input_accepted");
            let asm = match guarded(|| module.assemble()) {
                Ok(w) => w,
                Err(pi) => return out(mk("panic", format!("stage=assemble {}", pi.locus()), 1, pi.detail()), h),
            };
            // frame both sides by word count
            let frame = |w: &[u32]| -> Option<Vec<(usize, usize)>> {
                let mut v = vec![];
                let mut p = 5;
                while p < w.len() {
                    let wc = (w[p] >> 16) as usize;
                    if wc == 0 || p + wc > w.len() {
                        return None;
                    }
                    v.push((p, p + wc));
                    p += wc;
                }
                Some(v)
            };
            let (Some(fi), Some(fo)) = (frame(&words), frame(&asm)) else { return out(None, h) };
            // binaries with more than one OpMemoryModel are outside the guarantee (the module has a single slot)
            if fi.iter().filter(|(a0, _)| (words[*a0] & 0xffff) as u16 == s.op("MemoryModel")).count() > 1 {
                cov.hit("skipped.outside_guarantee");
                return out(None, h);
            }
            let mut used = vec![false; fo.len()];
            for (a0, a1) in &fi {
                let hit = fo.iter().enumerate().position(|(k, (b0, b1))| !used[k] && b1 - b0 == a1 - a0 && (0..a1 - a0).all(|x| (words[a0 + x] ^ asm[b0 + x]) & mask_in[a0 + x] == 0));
                match hit {
                    Some(k) => used[k] = true,
                    None => {
                        let op = (words[*a0] & 0xffff) as u16;
                        let name = s.inst(op).map(|g| g.name.clone()).unwrap_or_else(|| format!("#{}", op));
                        return out(
                            mk("conservation.dropped-or-changed", format!("op={} accepted-ungrammatical", name), 5, format!("the loader accepted the input although the reference rejects it; input instruction Op{} {:x?} does not come back with the same words ({} instructions in, {} out)", name, &words[*a0..*a1], fi.len(), fo.len())),
                            h,
                        );
                    }
                }
            }
            if let Some(k) = used.iter().position(|u| !u) {
                let op = (asm[fo[k].0] & 0xffff) as u16;
                return out(mk("conservation.invented", format!("op={} accepted-ungrammatical", s.inst(op).map(|g| g.name.clone()).unwrap_or_default()), 5, format!("output instruction {:x?} has no counterpart in the input", &asm[fo[k].0..fo[k].1])), h);
            }
            // relative order inside every section and function of the OUTPUT must be the input's (OpLine / OpNoLine
            // are outside the guarantee when they sit outside blocks: they are left out of the comparison)
            let opcode_of = |w: &[u32], f: &(usize, usize)| (w[f.0] & 0xffff) as u16;
            let is_line = |op: u16| op == s.op("Line") || op == s.op("NoLine");
            let mut groups: Vec<(String, Vec<usize>)> = vec![];
            let mut in_fn = false;
            for (k, f) in fo.iter().enumerate() {
                let op = opcode_of(&asm, f);
                if is_line(op) {
                    continue;
                }
                let cls = layout::class_of(op);
                if cls == Lc::Function {
                    in_fn = true;
                    groups.push((format!("function#{}", groups.iter().filter(|g| g.0.starts_with("function")).count()), vec![]));
                }
                if in_fn && cls == Lc::Parameter {
                    // layout order groups a function's parameters in front of its blocks: their own order group
                    let key = format!("parameters-of-{}", groups.iter().rev().find(|g| g.0.starts_with("function")).map(|g| g.0.clone()).unwrap_or_default());
                    match groups.iter_mut().find(|g| g.0 == key) {
                        Some(g) => g.1.push(k),
                        None => groups.push((key, vec![k])),
                    }
                } else if in_fn {
                    groups.iter_mut().rev().find(|g| g.0.starts_with("function")).unwrap().1.push(k);
                    if cls == Lc::FunctionEnd {
                        in_fn = false;
                    }
                } else {
                    let key = match cls {
                        Lc::Section(n) => format!("section{}", n),
                        _ => "section10".to_string(),
                    };
                    match groups.iter_mut().find(|g| g.0 == key) {
                        Some(g) => g.1.push(k),
                        None => groups.push((key, vec![k])),
                    }
                }
            }
            for (name, members) in &groups {
                let mut pos = 0usize;
                for k in members {
                    let (b0, b1) = fo[*k];
                    let found = (pos..fi.len()).find(|j| {
                        let (a0, a1) = fi[*j];
                        a1 - a0 == b1 - b0 && (0..a1 - a0).all(|x| (words[a0 + x] ^ asm[b0 + x]) & mask_in[a0 + x] == 0)
                    });
                    match found {
                        Some(j) => pos = j + 1,
                        None => {
                            let op = opcode_of(&asm, &fo[*k]);
                            let opn = s.inst(op).map(|g| g.name.clone()).unwrap_or_default();
                            return out(
                                mk("order.accepted-ungrammatical", format!("op={} {}", opn, name.trim_end_matches(char::is_numeric)), 6, format!("the loader accepted the input although the reference rejects it; in the output's {} instruction Op{} {:x?} comes after instructions that follow it in the input", name, opn, &asm[b0..b1])),
                                h,
                            );
                        }
                    }
                }
            }
            out(None, h)
        };
        // the producer stream must be grammar-valid; the reference automaton gives the expected module
        // "the input's instructions" are what the REFERENCE acceptor reads from the bytes (a reordering may
        // have moved a literal in front of the declaration that sized it in the producer's mind)
        let input = accept(&clean_bytes);
        if input.outcome != Outcome::Accept {
            return weak_lane("skipped.not_grammar_valid", cov, &h);
        }
        let input_insts: &Vec<MInst> = &input.insts;
        let mut a = Automaton::new();
        for i in input_insts {
            if a.step(i).is_err() {
                return weak_lane("skipped.ill_bracketed", cov, &h);
            }
        }
        if a.finish().is_err() {
            return weak_lane("skipped.ill_bracketed", cov, &h);
        }
        let _ = has_extra;
        if a.unconstrained || a.module.memory_models_seen > 1 {
            cov.hit("skipped.outside_guarantee");
            return out(None, &h);
        }
        // ---- real: load ------------------------------------------------------------------------
        let gb = GuardedBuf::new(&bytes, true);
        let loaded = guarded(|| match gb.words() {
            Some(w) if t.words_entry => dr::load_words(w),
            _ => dr::load_bytes(gb.bytes()),
        });
        let module = match loaded {
            Err(_) => {
                cov.hit("skipped.load_panicked");
                return out(None, &h);
            }
            Ok(Err(_)) => {
                // the property is conditional on acceptance; rejection of a valid module is C05's finding
                if corrupt_at.is_some() {
                    cov.hit("reached.corrupted_string_rejected");
                } else {
                    cov.hit("skipped.loader_rejected");
                }
                return out(None, &h);
            }
            Ok(Ok(m)) => m,
        };
        cov.hit("reached.loaded");
        // ---- real: assemble --------------------------------------------------------------------
        let asm = match guarded(|| module.assemble()) {
            Ok(w) => w,
            Err(pi) => return out(mk("panic", format!("stage=assemble {}", pi.locus()), 1, pi.detail()), &h),
        };
        // header: version (major, minor) and bound carried over
        if asm.len() < 5 || asm[0] != MAGIC {
            return out(mk("header", "magic".into(), 1, format!("assembled binary starts with {:x?}", &asm[..asm.len().min(5)])), &h);
        }
        if asm[1] & 0x00ff_ff00 != version_in & 0x00ff_ff00 {
            return out(mk("header", "version".into(), 1, format!("input version word {:#010x}, output {:#010x}", version_in, asm[1])), &h);
        }
        if asm[3] != t.stream.header.bound {
            return out(mk("header", "bound".into(), 1, format!("input bound {}, output bound {}", t.stream.header.bound, asm[3])), &h);
        }
        // expected instruction sequence: stable sort of the input by layout position
        let expect_insts = flatten(&a.module);
        let mut exp_words: Vec<u32> = vec![];
        let mut exp_mask = vec![];
        let mut exp_starts = vec![];
        let mut nopad = None;
        for i in &expect_insts {
            exp_starts.push(exp_words.len());
            encode_with_mask(i, &mut nopad, &mut exp_words, &mut exp_mask);
        }
        // guard: the layout-order encoding must read back (by the REFERENCE acceptor) as the same
        // instructions; otherwise the reordering changed which declarations precede a literal and
        // C10 and the re-load clause would pull in opposite directions (not judged)
        {
            let mut full = vec![MAGIC, version_in, 0, t.stream.header.bound, 0];
            full.extend_from_slice(&exp_words);
            let v = accept(&words_to_bytes(&full));
            if v.outcome != Outcome::Accept || v.insts != expect_insts {
                cov.hit("skipped.width_dependent_reorder");
                return out(None, &h);
            }
        }
        // the corrupted byte must come back exactly as it went in
        if let Some((j, w, sh, v)) = corrupt_at {
            cov.hit("reached.corrupted_string_accepted");
            let target = &input_insts[j];
            let cands: Vec<usize> = expect_insts.iter().enumerate().filter(|(_, i)| *i == target).map(|(k, _)| k).collect();
            if cands.len() != 1 {
                cov.hit("skipped.ambiguous_corruption_target");
                return out(None, &h);
            }
            let st = exp_starts[cands[0]];
            exp_words[st + w] = (exp_words[st + w] & !(0xFF << sh)) | (v << sh);
        }
        let got = &asm[5..];
        // walk instruction by instruction for a readable diagnosis
        let mut pos = 0usize;
        for (k, i) in expect_insts.iter().enumerate() {
            let st = exp_starts[k];
            let en = exp_starts.get(k + 1).cloned().unwrap_or(exp_words.len());
            if pos + (en - st) > got.len() {
                return out(
                    mk("conservation.dropped", format!("op={}", i.name()), 2, format!("output ends after {} words; instruction #{} of the expected layout order [{}] is missing", got.len(), k + 1, show(i))),
                    &h,
                );
            }
            for w in 0..(en - st) {
                if (got[pos + w] ^ exp_words[st + w]) & exp_mask[st + w] != 0 {
                    // classify: is this instruction present elsewhere / is something else here?
                    let got_op = (got[pos] & 0xffff) as u16;
                    let clause = if got_op != i.opcode { "layout-order" } else { "words" };
                    let got_name = s.inst(got_op).map(|g| g.name.clone()).unwrap_or_else(|| format!("#{}", got_op));
                    return out(
                        mk(
                            clause,
                            format!("op={}", if clause == "words" { i.name() } else { got_name.clone() }),
                            2,
                            format!(
                                "output instruction #{} differs at word {}: got {:#010x} (Op{}), expected {:#010x} from [{}]; expected words {:x?}, got {:x?}",
                                k + 1,
                                w,
                                got[pos + w],
                                got_name,
                                exp_words[st + w],
                                show(i),
                                &exp_words[st..en],
                                &got[pos..(pos + en - st).min(got.len())]
                            ),
                        ),
                        &h,
                    );
                }
            }
            pos += en - st;
            cov.item(i.opcode as u32);
        }
        if pos != got.len() {
            let op = (got[pos] & 0xffff) as u16;
            return out(
                mk(
                    "conservation.invented",
                    format!("op={}", s.inst(op).map(|g| g.name.clone()).unwrap_or_default()),
                    2,
                    format!("{} surplus words after the {} expected instructions: {:x?}", got.len() - pos, expect_insts.len(), &got[pos..got.len().min(pos + 8)]),
                ),
                &h,
            );
        }
        // input already in layout order => identical from the first instruction on (modulo padding)
        let in_layout_order = expect_insts == *input_insts;
        if in_layout_order {
            cov.hit("reached.input_in_layout_order");
            let input_tail = &words[5..];
            if input_tail.len() != got.len() || input_tail.iter().zip(got.iter()).zip(mask_in[5..].iter()).any(|((a, b), m)| (a ^ b) & m != 0) {
                return out(mk("identity-on-layout-order", "words".into(), 3, "input in layout order did not come back word-identical".into()), &h);
            }
        } else {
            cov.hit("reached.input_reordered");
        }
        // ---- loading the output again gives an equal module ----------------------------------------
        let again = match guarded(|| dr::load_words(&asm)) {
            Ok(r) => r,
            Err(pi) => return out(mk("panic", format!("stage=reload {}", pi.locus()), 4, pi.detail()), &h),
        };
        match again {
            Err(e) => out(mk("reload", "rejected".into(), 4, format!("the assembled output is rejected by the loader: {:?}", e)), &h),
            Ok(m2) => {
                if let Some(d) = real_modules_equal(&module, &m2) {
                    return out(mk("reload", "module-differs".into(), 4, d), &h);
                }
                if m2.header.as_ref().map(|x| (x.version, x.bound)) != module.header.as_ref().map(|x| (x.version, x.bound)) {
                    return out(mk("reload", "header-differs".into(), 4, "version/bound differ after reload".into()), &h);
                }
                out(None, &h)
            }
        }
    }

    fn shrink(t: &Trace) -> Vec<Trace> {
        let mut out = vec![];
        if t.pad_seed.is_some() {
            let mut c = t.clone();
            c.pad_seed = None;
            out.push(c);
        }
        if t.version_spare != (0, 0) {
            let mut c = t.clone();
            c.version_spare = (0, 0);
            out.push(c);
        }
        if t.corrupt.is_some() {
            let mut c = t.clone();
            c.corrupt = None;
            out.push(c);
        }
        for k in 0..t.extra.len() {
            let mut c = t.clone();
            c.extra.remove(k);
            out.push(c);
        }
        let n = t.stream.insts.len();
        for (a, b) in shrink_chunks(n) {
            let mut c = t.clone();
            c.stream.insts.drain(a..b);
            out.push(c);
        }
        for j in shrink_indices(n) {
            let mut c = t.clone();
            c.stream.insts.remove(j);
            out.push(c);
        }
        // drop a whole function (def..end)
        let mut k = 0;
        while k < n {
            if layout::class_of(t.stream.insts[k].opcode) == Lc::Function {
                if let Some(e) = (k..n).find(|x| layout::class_of(t.stream.insts[*x].opcode) == Lc::FunctionEnd) {
                    let mut c = t.clone();
                    c.stream.insts.drain(k..=e);
                    out.push(c);
                    k = e;
                }
            }
            k += 1;
        }
        for j in 0..n.min(300) {
            for (k, o) in t.stream.insts[j].ops.iter().enumerate() {
                if let MOp::S(st) = o {
                    if !st.is_empty() {
                        let mut c = t.clone();
                        c.stream.insts[j].ops[k] = MOp::S(String::new());
                        out.push(c);
                    }
                }
            }
        }
        out
    }

    fn meta() -> Meta {
        Meta {
            level: "exploration",
            rule: "each run is a seeded producer module (3-24 instructions, core and KHR/EXT opcodes whose layout class the statement fixes, <= 1 OpMemoryModel) passed through a legally reordering medium (3/4 of the runs: module-level instructions of the opcode-fixed sections moved anywhere incl. inside blocks, sections permuted, a parameter moved behind its function's blocks; string padding bytes and spare version bytes randomised), then real load -> real assemble -> real load; compared word for word against the reference encoding of the stable layout sort of the input; abstract trace = (reorderings, sequence of layout classes); non-trivial = >= 3 instructions",
            lanes: "storage faults the loader should reject (string byte -> invalid UTF-8, undeclared enumerant word, stray structural instruction) with a weak lane: if the loader accepts anyway, frame-level conservation is demanded; ext-inst hot spot (known / NonSemantic / near-miss set names) inside blocks; boundary ids (0, 2^31, u32::MAX); minor versions up to 255; rare giant features (0xFFFD..0xFFFF-word instructions, 65k..262k-byte strings, 363 distinct types, 65k+ tracked ids); order clause for accepted-but-ill-bracketed inputs (relative order inside every output section, parameter list and function); stray OpLine + body instruction outside blocks; declarations moved into a block behind an OpLine; registered extension names; boundary header bounds (0, 1, 2^31, 2^32-1); linkage and structured-merge hot spots; dense ids across 2^k boundaries; the same instruction delivered twice in a row; repeated switch / table entries; references that point at real functions, function types, labels, variables and pointer types of the module; annotations aimed at ids defined later",
            triple_measure: "n/a",
            item_measure: "opcodes that went through load+assemble and were compared word for word",
            assumptions: &[
                "conditional on acceptance: a run the real loader rejects is skipped here (rejecting a valid module is C05's finding)",
                "int/float declarations and typed value definitions stay before the literals that depend on them in both input and layout order, ids are unique (otherwise C10 and the re-load clause would pull in opposite directions)",
                "generator and reserved header words are not judged; vendor / context-dependent module-scope opcodes are not emitted",
            ],
            real_components: &["binary::Parser + Decoder", "dr::Loader (load_bytes / load_words)", "binary::Assemble for Module/Function/Block/Instruction/Operand", "dr::Module::global_inst_iter"],
            simulated_components: &["producer + reference encoder", "reordering medium", "bracket automaton + section map (expected layout order)"],
            fault_kinds: &["reorder_module_level_anywhere", "reorder_sections_permuted", "reorder_parameter_behind_blocks", "string_padding_randomised", "version_spare_bytes_randomised"],
        }
    }
}
