//! C20 — rspirv-dis prints the library disassembly or an error and never
//! crashes.  The REAL executable (built from /repo by ./check) on real files:
//! content faults (corrupted modules, raw bytes, empty file) plus syscall-level
//! EINTR injected into the k-th read(2) of the input file via strace; oracle on
//! exit status / stdout / stderr against the in-process library result.

use crate::core::*;
use crate::faults::{self, Fault};
use crate::model::*;
use crate::producer::{gen_stream, ProdCfg};
use crate::props::c04::Source;
use crate::rng::Rng;
use crate::runner::scratch_dir;
use crate::snapshot::snap;
use rspirv::binary::Disassemble;
use rspirv::dr;
use serde::{Deserialize, Serialize};
use std::io::Read;
use std::os::unix::process::ExitStatusExt;
use std::process::{Command, Stdio};
use std::time::{Duration, Instant};

#[derive(Clone, Debug, Serialize, Deserialize)]
pub struct Trace {
    pub source: Source,
    pub faults: Vec<Fault>,
    /// interrupt the k-th read(2) on the input file with EINTR (strace syscall fault injection)
    pub eintr_at: Option<u32>,
    /// scale: instead of `source`, a file of header + `0` x (OpCapability Shader) + one final word `1`
    /// (files beyond 64 KiB / 16 MiB; the final word decides between a valid end and a late parse error)
    #[serde(default)]
    pub big: Option<(u32, u32)>,
    /// header variant of the scale file: 0 plain, 1 byte-swapped magic, 2 junk in the unused version bytes,
    /// 3 wrong magic, 4 version 0.99, 5 all-ones bound
    #[serde(default)]
    pub big_hdr: u8,
    /// hand the bytes over through a named pipe instead of a regular file (a readable input file whose
    /// size is not known in advance and which delivers short reads)
    #[serde(default)]
    pub via_fifo: bool,
    /// bytes put in front of / behind the file content (text-file habits: line endings, byte order marks,
    /// the tool's own textual output, other formats' magic numbers); the tool must hand exactly the file's
    /// bytes to the library
    #[serde(default)]
    pub affix: Option<(Vec<u8>, Vec<u8>)>,
}

const PREFIXES: &[&[u8]] = &[b"", b"", b"", b"; SPIR-V\n", b"; SPIR-V", b"; SPIR-V\n; Version: 1.0\n; Generator: rspirv\n; Bound: 1\n", b"\xEF\xBB\xBF", b"#!/bin/sh\n", b"\x1f\x8b\x08", b"SPIR", b"\n", b"\x03\x02\x23\x07", b"\x07\x23\x02\x03", b"OpCapability Shader\n"];
const SUFFIXES: &[&[u8]] = &[b"\n", b"\r\n", b"\n\n", b"\n\n\n\n\n", b"\r\n\r\n\r", b"\n\n\n\n\n\n\n\n", b"\0", b"\0\0\0\0\0", b" ", b"\x1a", b"", b"\n\r\n\r\n\r\n"];

pub struct C20;

fn dis_bin() -> String {
    std::env::var("VERIF_DIS_BIN").unwrap_or_else(|_| {
        let p = crate::runner::verif_root().join("target/dis/release/rspirv-dis");
        p.to_string_lossy().to_string()
    })
}

struct ExecOut {
    code: Option<i32>,
    signal: Option<i32>,
    stdout: Vec<u8>,
    stderr: Vec<u8>,
    timed_out: bool,
}

fn run_with_timeout(cmd: Command, secs: u64) -> std::io::Result<ExecOut> {
    run_inner(cmd, None, secs)
}

fn run_with_stdin(cmd: Command, data: Vec<u8>, secs: u64) -> std::io::Result<ExecOut> {
    run_inner(cmd, Some(data), secs)
}

fn run_inner(mut cmd: Command, stdin_data: Option<Vec<u8>>, secs: u64) -> std::io::Result<ExecOut> {
    cmd.stdin(if stdin_data.is_some() { Stdio::piped() } else { Stdio::null() }).stdout(Stdio::piped()).stderr(Stdio::piped());
    let mut child = cmd.spawn()?;
    if let Some(data) = stdin_data {
        let mut w = child.stdin.take().unwrap();
        std::thread::spawn(move || {
            use std::io::Write;
            for chunk in data.chunks(4093) {
                if w.write_all(chunk).is_err() {
                    break;
                }
                let _ = w.flush();
            }
            // dropping `w` closes the pipe: end of file for the reader
        });
    }
    let mut so = child.stdout.take().unwrap();
    let mut se = child.stderr.take().unwrap();
    // outputs are small (a few KB); read them on helper threads so a full pipe cannot stall the child
    let t1 = std::thread::spawn(move || {
        let mut v = vec![];
        let _ = so.read_to_end(&mut v);
        v
    });
    let t2 = std::thread::spawn(move || {
        let mut v = vec![];
        let _ = se.read_to_end(&mut v);
        v
    });
    let t0 = Instant::now();
    let mut timed_out = false;
    let status = loop {
        match child.try_wait()? {
            Some(st) => break st,
            None => {
                if t0.elapsed() > Duration::from_secs(secs) {
                    let _ = child.kill();
                    timed_out = true;
                    break child.wait()?;
                }
                std::thread::sleep(Duration::from_micros(300));
            }
        }
    };
    Ok(ExecOut {
        code: status.code(),
        signal: status.signal(),
        stdout: t1.join().unwrap_or_default(),
        stderr: t2.join().unwrap_or_default(),
        timed_out,
    })
}

impl Property for C20 {
    type Trace = Trace;
    const ID: &'static str = "C20";

    fn runs(tier: Tier) -> u64 {
        match tier {
            Tier::Quick => 40_000,
            Tier::Thorough => 4_000_000,
        }
    }

    fn generate(rng: &mut Rng, tier: Tier) -> Trace {
        let s = snap();
        let style = rng.below(12);
        let (source, faults) = match style {
            0 => (Source::Raw(vec![]), vec![]),
            1 => {
                let n = rng.below(80) as usize;
                (Source::Raw((0..n).map(|_| rng.below(256) as u8).collect()), vec![])
            }
            2 => {
                let mut w = vec![MAGIC, 0x0001_0000, 0, 100, 0];
                for _ in 0..rng.below(12) {
                    if rng.chance(1, 2) {
                        let g = &s.insts[rng.usize_below(s.insts.len())];
                        w.push((rng.range(1, 6) as u32) << 16 | g.opcode as u32);
                    } else {
                        w.push(rng.word());
                    }
                }
                (Source::Raw(words_to_bytes(&w)), vec![])
            }
            _ => {
                // a loadable module more often than not: layout-ordered, core opcodes
                let mut cfg = ProdCfg::parser_default(rng);
                cfg.allow_other = rng.chance(1, 2);
                cfg.max_insts = cfg.max_insts.max(3);
                cfg.giant = true;
                if rng.chance(1, 3) {
                    cfg.max_funcs = 0; // modules without functions: the last line is a module-level instruction
                }
                let mut stream = gen_stream(rng, cfg);
                if rng.chance(1, 120) {
                    // scale features are cheap here relative to a process execution: make them common
                    crate::producer::plant_giant(rng, &mut stream);
                }
                if rng.chance(1, 4) {
                    // ext inst import + ext inst with boundary numbers (name rendering path of the disassembler)
                    crate::producer::plant_ext_inst(rng, &mut stream);
                }
                if rng.chance(1, 4) {
                    crate::producer::plant_late_type(rng, &mut stream);
                }
                if rng.chance(1, 4) {
                    crate::producer::plant_spec_constant_op(rng, &mut stream);
                }
                if rng.chance(1, 4) {
                    stream.insts.push(MInst {
                        opcode: s.op("Constant"),
                        rtype: Some(rng.range(1, 300) as u32),
                        rid: Some(901),
                        ops: vec![MOp::W(s.k_lit32, rng.word())],
                    });
                }
                let n = if rng.chance(1, 2) { 0 } else { rng.range(1, 3) as usize };
                let mut faults = if n == 0 { vec![] } else { faults::gen_faults(rng, &stream, n, faults::ALL_FAULTS) };
                if rng.chance(1, 10) {
                    // an error message hot spot: a string with a line feed whose LATER byte is invalid UTF-8
                    let text = *rng.pick(&["ab\ncd", "\nxyz", "line1\nline2 and more", "a\n\nb"]);
                    let at = rng.usize_below(stream.insts.len() + 1).min(stream.insts.iter().position(|i| i.is("Function")).unwrap_or(stream.insts.len()));
                    stream.insts.insert(at, MInst { opcode: s.op("String"), rtype: None, rid: Some(stream.header.bound + 20), ops: vec![MOp::S(text.to_string())] });
                    let lf = text.find('\n').unwrap();
                    let pos = lf + 1 + rng.usize_below(text.len() - lf - 1);
                    // (instruction indices of earlier faults shift by one; they stay executable, just land elsewhere)
                    faults.insert(0, Fault::StrByte(at, pos, *rng.pick(&[0xFFu8, 0xC0, 0xF8])));
                }
                if rng.chance(1, 12) {
                    // a big-endian copy of the file, often with a ragged tail
                    faults.push(Fault::ByteSwapAll);
                    if rng.chance(2, 3) {
                        let len = stream.encode().0.len() * 4;
                        faults.push(Fault::Trunc(len.saturating_sub(rng.range(1, 7) as usize)));
                    }
                }
                (Source::Stream(stream), faults)
            }
        };
        let share = if tier == Tier::Quick { 12 } else { 8 };
        let eintr_at = if rng.chance(1, share) { Some(rng.range(1, 2) as u32) } else { None };
        let big_hdr = rng.below(6) as u8;
        let mut big_hdr = big_hdr;
        let big = if rng.chance(1, 300) {
            // a loadable module whose disassembly has a round number of lines (4 header lines + count + the final OpNop)
            big_hdr = 0;
            let lines = *rng.pick(&[10_000u32, 65_536, 100_000, 100_000, 200_000, 131_072]);
            Some((lines - 4 - *rng.pick(&[0u32, 0, 0, 1]), u32::MAX))
        } else if rng.chance(1, 150) {
            // around 64 KiB and 1 MiB (8 bytes per instruction): cheap enough to be common, with every header variant
            // (and line counts of the disassembly around round numbers: 4 header lines + one line per instruction)
            let count = *rng.pick(&[8_190u32, 8_192, 9_995, 9_996, 65_531, 65_532, 99_995, 99_996, 99_997, 131_068, 131_070, 131_071, 131_072, 131_073, 140_000, 199_996]);
            Some((count, *rng.pick(&[u32::MAX, u32::MAX, 0u32, 0x0002_0011, 0x0001_FFFF, 0x0001_0000])))
        } else if rng.chance(1, 1500) {
            // beyond 16 MiB
            let count = *rng.pick(&[2_097_149u32, 2_097_150, 2_097_152, 2_200_000]);
            Some((count, *rng.pick(&[u32::MAX, 0u32, 0x0002_0011, 0x0001_FFFF, 0x0001_0000])))
        } else {
            None
        };
        let via_fifo = big.is_none() && eintr_at.is_none() && rng.chance(1, 12);
        let affix = if big.is_none() && rng.chance(1, 7) { Some((rng.pick(PREFIXES).to_vec(), rng.pick(SUFFIXES).to_vec())) } else { None };
        Trace { source, faults, eintr_at: if big.is_some() { None } else { eintr_at }, big, big_hdr, via_fifo, affix }
    }

    fn execute(t: &Trace, cov: &mut Cov) -> RunOut {
        let mut h = AbsHash::new();
        let (bytes, fired) = match (&t.big, &t.source) {
            (Some((count, tail)), _) => {
                cov.hit("reached.file_beyond_16_mib_or_64_kib");
                let mut w: Vec<u32> = Vec::with_capacity(6 + 2 * *count as usize);
                let hdr: [u32; 5] = match t.big_hdr {
                    1 => [MAGIC.swap_bytes(), 0x0001_0000, 0, 1, 0],
                    2 => [MAGIC, 0xA501_00C3, 0, 1, 0],
                    3 => [MAGIC ^ 0x100, 0x0001_0000, 0, 1, 0],
                    4 => [MAGIC, 0x0000_6300, 0, 1, 0],
                    5 => [MAGIC, 0x0001_0600, 0xFFFF_FFFF, 0xFFFF_FFFF, 0xFFFF_FFFF],
                    _ => [MAGIC, 0x0001_0000, 0, 1, 0],
                };
                w.extend_from_slice(&hdr);
                for _ in 0..*count {
                    w.push(0x0002_0011);
                    w.push(1);
                }
                // (u32::MAX: no trailing word at all - the module ends cleanly and loads)
                if *tail != u32::MAX {
                    w.push(*tail);
                }
                (words_to_bytes(&w), vec![])
            }
            (None, Source::Raw(b)) => (b.clone(), vec![]),
            (None, Source::Stream(st)) => faults::apply(st, &t.faults),
        };
        let bytes = match &t.affix {
            Some((pre, suf)) => {
                cov.hit("fault.foreign_bytes_around_the_content");
                let mut b = pre.clone();
                b.extend_from_slice(&bytes);
                b.extend_from_slice(suf);
                b
            }
            None => bytes,
        };
        for f in &fired {
            cov.hit(f);
        }
        for f in &t.faults {
            h.push(100, f.code());
        }
        cov.hit("steps");
        let mk = |c: &str, locus: String, d: String| Some(Violation::new(&format!("C20.{}", c), locus, 0, d));
        // ---- expected output from the library, in process -------------------------------------------
        let expected = guarded(|| match dr::load_bytes(&bytes) {
            Ok(m) => (true, format!("{}\n", m.disassemble())),
            Err(e) => (false, format!("{}\n", e)),
        });
        let (loaded, expected) = match expected {
            Ok(x) => x,
            Err(pi) => {
                return RunOut {
                    violation: mk("panic", format!("library {}", pi.locus()), format!("the library itself panics on this file content ({} bytes): {}", bytes.len(), pi.detail())),
                    abs_hash: h.0,
                    nontrivial: true,
                }
            }
        };
        // ---- the real process on a real file ------------------------------------------------------------
        let dir = scratch_dir().join(format!("c20-{}", std::process::id()));
        let _ = std::fs::create_dir_all(&dir);
        let path = dir.join("input.spv");
        if t.via_fifo {
            cov.hit("fault.input_is_a_pipe");
        } else if let Err(e) = std::fs::write(&path, &bytes) {
            eprintln!("HARNESS-ERROR: cannot write {}: {}", path.display(), e);
            std::process::exit(3);
        }
        let bin = dis_bin();
        let mut injected = false;
        let out = match t.eintr_at {
            None if t.via_fifo => {
                // the input is a pipe (/dev/stdin): size unknown in advance, data arrives in pieces
                let mut c = Command::new(&bin);
                c.arg("/dev/stdin");
                run_with_stdin(c, bytes.clone(), 20)
            }
            None => {
                let mut c = Command::new(&bin);
                c.arg(&path);
                run_with_timeout(c, if t.big.is_some() { 120 } else { 20 })
            }
            Some(k) => {
                injected = true;
                let mut c = Command::new("strace");
                c.arg("-o").arg(dir.join("strace.out")).arg("-P").arg(&path).arg("-e").arg("trace=read").arg("-e").arg(format!("inject=read:error=EINTR:when={}", k)).arg(&bin).arg(&path);
                run_with_timeout(c, 30)
            }
        };
        let _ = std::fs::remove_file(&path);
        let out = match out {
            Ok(o) => o,
            Err(e) => {
                if injected {
                    cov.hit("skipped.strace_unavailable");
                    return RunOut { violation: None, abs_hash: h.0, nontrivial: false };
                }
                eprintln!("HARNESS-ERROR: cannot execute {}: {}", bin, e);
                std::process::exit(3);
            }
        };
        if injected {
            let err = String::from_utf8_lossy(&out.stderr);
            if err.contains("strace:") && (err.contains("ptrace") || err.contains("Operation not permitted") || err.contains("invalid")) {
                cov.hit("skipped.strace_unavailable");
                return RunOut { violation: None, abs_hash: h.0, nontrivial: false };
            }
            // count the fault only when strace reports that it was actually delivered
            let log = std::fs::read_to_string(dir.join("strace.out")).unwrap_or_default();
            let _ = std::fs::remove_file(dir.join("strace.out"));
            if log.contains("INJECTED") {
                cov.hit("fault.eintr_on_file_read");
            } else {
                cov.hit("reached.eintr_configured_but_not_delivered");
            }
        }
        let content_class = if bytes.is_empty() { 0 } else if loaded { 1 } else { 2 };
        cov.triple(content_class, t.eintr_at.unwrap_or(0), out.code.unwrap_or(-1) as u32);
        h.push(content_class, t.eintr_at.unwrap_or(0));
        h.push(bytes.len() as u32 / 8, loaded as u32);
        if loaded {
            cov.hit("reached.disassembly_printed");
        } else {
            cov.hit("reached.error_message_printed");
        }
        let inj = if injected { " (EINTR injected)" } else { "" };
        let violation = if out.timed_out {
            mk("hang", "timeout".into(), format!("rspirv-dis did not terminate within the timeout{}", inj))
        } else if let Some(sig) = out.signal {
            mk("signal", format!("signal={}", sig), format!("rspirv-dis died on signal {}{}; stderr: {}", sig, inj, String::from_utf8_lossy(&out.stderr)))
        } else if String::from_utf8_lossy(&out.stderr).contains("panicked") {
            let err = String::from_utf8_lossy(&out.stderr).to_string();
            let site = err.lines().find(|l| l.contains("panicked")).unwrap_or("").to_string();
            // "thread 'main' (1234) panicked at file:LINE:COL:" -> "panicked at file"
            let at = site.split("panicked at ").nth(1).unwrap_or(&site);
            let file = at.split(':').next().unwrap_or(at).trim().to_string();
            let msg = err.lines().skip_while(|l| !l.contains("panicked")).nth(1).unwrap_or("").to_string();
            let pi = PanicInfo { file, line: 0, msg };
            mk("stderr-panic", pi.locus(), format!("exit {:?}{}; stderr: {}", out.code, inj, err))
        } else if out.code != Some(0) {
            mk("exit-status", format!("exit={:?}", out.code), format!("rspirv-dis exited with {:?}{}; stderr: {}", out.code, inj, String::from_utf8_lossy(&out.stderr)))
        } else if !loaded && expected.trim_end_matches('\n').contains('\n') {
            // the library's own message is not one line (the binary prints the same text, so compare-only would miss it)
            mk("error-one-line", "library-message".into(), format!("the loading error is rendered on more than one line: {:?}", expected.chars().take(300).collect::<String>()))
        } else if out.stdout != expected.as_bytes() {
            let got = String::from_utf8_lossy(&out.stdout).to_string();
            let kind = if got.trim_end_matches('\n') == expected.trim_end_matches('\n') { "trailing-newline" } else if loaded { "disassembly" } else { "error-message" };
            mk("stdout", kind.into(), format!("stdout{} is {:?}, the library gives {:?}", inj, got.chars().take(300).collect::<String>(), expected.chars().take(300).collect::<String>()))
        } else {
            None
        };
        RunOut {
            violation,
            abs_hash: h.0,
            nontrivial: true,
        }
    }

    fn shrink(t: &Trace) -> Vec<Trace> {
        let mut out = vec![];
        if t.eintr_at.is_some() {
            let mut c = t.clone();
            c.eintr_at = None;
            out.push(c);
        }
        if t.via_fifo {
            let mut c = t.clone();
            c.via_fifo = false;
            out.push(c);
        }
        if let Some((pre, suf)) = &t.affix {
            let mut c = t.clone();
            c.affix = None;
            out.push(c);
            if !pre.is_empty() {
                let mut c = t.clone();
                c.affix = Some((vec![], suf.clone()));
                out.push(c);
            }
            if !suf.is_empty() {
                let mut c = t.clone();
                c.affix = Some((pre.clone(), suf[..suf.len() - 1].to_vec()));
                out.push(c);
            }
        }
        if let Some((count, tail)) = t.big {
            if t.big_hdr != 0 {
                let mut c = t.clone();
                c.big_hdr = 0;
                out.push(c);
            }
            // (geometric steps only: every candidate costs a process execution on a file of that size)
            let mut steps = vec![count / 2, count - count / 4, count - count / 16, count - count / 256];
            if count <= 1024 {
                steps.push(count - 1);
            }
            steps.dedup();
            for c2 in steps {
                if c2 > 0 && c2 != count {
                    let mut c = t.clone();
                    c.big = Some((c2, tail));
                    out.push(c);
                }
            }
            return out;
        }
        for fl in faults::shrink_faults(&t.faults) {
            let mut c = t.clone();
            c.faults = fl;
            out.push(c);
        }
        match &t.source {
            Source::Stream(st) => {
                for j in shrink_indices(st.insts.len()).into_iter().take(40) {
                    let mut c = t.clone();
                    if let Source::Stream(s2) = &mut c.source {
                        s2.insts.remove(j);
                    }
                    c.faults = faults::reindex_after_remove(&t.faults, j);
                    out.push(c);
                }
            }
            Source::Raw(b) => {
                for k in [b.len() / 2, 4, 1] {
                    if k > 0 && b.len() > k {
                        let mut c = t.clone();
                        if let Source::Raw(b2) = &mut c.source {
                            b2.truncate(b.len() - k);
                        }
                        out.push(c);
                    }
                }
            }
        }
        // keep the shrinker cheap: each candidate costs a process execution
        out.truncate(40);
        out
    }

    /// the tool must print a result for every file: a library call that never returns (or kills the process) on the file's bytes is the tool's hang / crash too
    fn crash_is_violation() -> bool {
        true
    }

    fn meta() -> Meta {
        Meta {
            level: "fault_enumeration",
            rule: "each run writes one file (empty, random bytes, random words behind a valid header, or a producer module - clean or with 1-3 storage faults, often with GLSL/OpenCL ext-inst imports and OpConstants of undeclared type) and executes the real rspirv-dis binary built from /repo on it; a share of the runs executes it under strace with EINTR injected into the 1st or 2nd read(2) on the input file (both read calls the program issues are covered); exit status 0, no signal, no 'panicked' on stderr, stdout byte-identical to library disassembly + newline or the error's Display + newline; abstract trace = (fault kinds, content class, injection index, size bucket); every run is non-trivial (a real process execution)",
            lanes: "ext-inst and late-type hot spots, LF-then-invalid-UTF-8 strings, byte-swapped + truncated files, function-less modules, giant strings with dense multi-byte content, input through a pipe (/dev/stdin, 4 KiB pieces), files of 8190..2.2e6 instructions (> 16 MiB); a loading error must be one line; foreign bytes around the content (the tool's own textual output, \"; SPIR-V\", BOM, #!, gzip / reversed magic in front; LF / CRLF runs, NULs, blank, Ctrl-Z behind); files around 64 KiB / 1 MiB (1 run in 150) and beyond 16 MiB (1 in 1500) with six header variants, ending cleanly or in an error; disassemblies of 10 000 / 65 536 / 100 000 / 131 072 / 200 000 lines",
            triple_measure: "(content class empty/loadable/rejected, EINTR injection index, exit code)",
            item_measure: "n/a",
            assumptions: &[
                "the expected stdout is computed in process by the same /repo library (dr::load_bytes + Disassemble / Display); if that panics the violation is reported as C20.panic",
                "strace -P confines the injection to the input file's descriptor; only single-shot when=k injection (a persistent one livelocks std's retry loop by design)",
                "if strace cannot attach in the sandbox the injected share is skipped and counted (skipped.strace_unavailable)",
            ],
            real_components: &["the rspirv-dis executable (clap argument parsing, file open/read, load_bytes, disassemble, println)", "the kernel's file I/O", "strace syscall fault injection"],
            simulated_components: &["file content generator + storage faults"],
            fault_kinds: &["eintr_on_file_read", "drop", "dup", "swap", "move", "wc", "opcode", "inst_word", "operand_drop", "operand_extra", "unterminate", "word", "flip", "garbage", "byteswap", "trunc"],
        }
    }
}
