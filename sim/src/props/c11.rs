//! C11 — Decoder consumes exactly what it returns and honours limits.
//! Request/limit histories on arbitrary buffers against a two-field reference
//! decoder (offset, limit).  The environment's faults: EOF at any byte, ragged
//! tail, limits smaller/larger than what remains, limits near usize::MAX.

use crate::core::*;
use crate::guard::{hexbytes, GuardedBuf};
use crate::kinds::{decode_typed, TYPED_KINDS};
use crate::rng::Rng;
use crate::snapshot::snap;
use rspirv::binary::{DecodeError, Decoder};
use serde::{Deserialize, Serialize};

#[derive(Clone, Debug, Serialize, Deserialize, PartialEq)]
pub enum Req {
    Word,
    Words(u64),
    Str,
    Bit32,
    Bit64,
    Id,
    ExtInst,
    Typed(u32),
    Offset,
    SetLimit(u64),
    ClearLimit,
    HasLimit,
    LimitReached,
}

#[derive(Clone, Debug, Serialize, Deserialize)]
pub struct Trace {
    #[serde(with = "hexbytes")]
    pub bytes: Vec<u8>,
    pub flush_end: bool,
    /// the buffer starts this many bytes (1..=3) past a 4-byte boundary (0: wherever the guard-page placement puts it)
    #[serde(default)]
    pub misalign: u8,
    pub reqs: Vec<Req>,
}

#[derive(Clone, Copy, Debug, PartialEq)]
enum Lim {
    None,
    Exact(u64),
    AtMost(u64),
}

fn err_offset(e: &DecodeError) -> Option<usize> {
    match e {
        DecodeError::StreamExpected(o) | DecodeError::LimitReached(o) => Some(*o),
        DecodeError::DecodeStringFailed(o, _) => Some(*o),
        other => {
            // <Kind>Unknown(offset, word)
            let s = format!("{:?}", other);
            let a = s.find('(')? + 1;
            let b = s[a..].find(|c: char| !c.is_ascii_digit())? + a;
            s[a..b].parse().ok()
        }
    }
}

pub struct C11;

/// every declared (typed request index, number) pair: enumerants of the 41 value enums, and for the 15
/// masks each declared bit, the union of all bits and 0
fn typed_pairs() -> &'static Vec<(u32, u32)> {
    static PAIRS: std::sync::OnceLock<Vec<(u32, u32)>> = std::sync::OnceLock::new();
    PAIRS.get_or_init(|| {
        let s = snap();
        let mut v = vec![];
        for (i, name) in TYPED_KINDS.iter().enumerate() {
            let k = s.kind(name);
            if let Some(e) = s.enums.get(&k) {
                for n in &e.numbers {
                    v.push((i as u32, *n));
                }
            } else if let Some(m) = s.masks.get(&k) {
                v.push((i as u32, 0));
                v.push((i as u32, m.all));
                for (bit, _) in &m.bits {
                    v.push((i as u32, *bit));
                }
            }
        }
        v
    })
}

fn gen_bytes(rng: &mut Rng) -> Vec<u8> {
    let target = match rng.below(10) {
        0 => rng.below(8) as usize,
        1..=6 => rng.range(4, 48) as usize,
        _ => rng.range(40, 96) as usize,
    };
    let mut b: Vec<u8> = vec![];
    while b.len() < target {
        match rng.below(9) {
            0 => {
                // small word (often a valid enumerant)
                b.extend_from_slice(&(rng.below(24) as u32).to_le_bytes());
            }
            1 => b.extend_from_slice(&rng.word().to_le_bytes()),
            2 => {
                // ascii string with NUL and zero padding
                let n = rng.below(9) as usize;
                for _ in 0..n {
                    b.push(b'a' + rng.below(26) as u8);
                }
                b.push(0);
                while b.len() % 4 != 0 && rng.chance(3, 4) {
                    b.push(0);
                }
            }
            3 => {
                // multibyte utf-8 (incl. a byte order mark at the very start of a string)
                let s = *rng.pick(&["é", "€", "😀", "ß∂", "日本", "\u{feff}", "\u{feff}ab", "a\u{feff}"]);
                b.extend_from_slice(s.as_bytes());
                if rng.chance(1, 2) {
                    b.push(0);
                }
            }
            4 => {
                // invalid utf-8
                b.push(*rng.pick(&[0xFFu8, 0xC0, 0xE2, 0x80, 0xF8]));
                if rng.chance(1, 2) {
                    b.push(b'x');
                }
            }
            5 => {
                // non-NUL run (string without terminator)
                for _ in 0..rng.range(1, 8) {
                    b.push(b'A' + rng.below(26) as u8);
                }
            }
            6 => b.push(0),
            7 if rng.chance(1, 2) => {
                // control characters and bytes around 0x80 right in front of the terminator / at any offset modulo 4
                // (the bytes a word-at-a-time NUL search gets wrong)
                for _ in 0..rng.below(6) {
                    b.push(b'a' + rng.below(26) as u8);
                }
                b.push(*rng.pick(&[0x01u8, 0x01, 0x02, 0x7f, 0x1f]));
                if rng.chance(1, 2) {
                    b.push(*rng.pick(&[0x01u8, b'z', 0x7f]));
                }
                b.push(0);
                while b.len() % 4 != 0 && rng.chance(3, 4) {
                    b.push(0);
                }
            }
            _ => {
                // a valid number of a random typed kind
                let s = snap();
                let k = s.kind(TYPED_KINDS[rng.usize_below(TYPED_KINDS.len())]);
                let w = if let Some(e) = s.enums.get(&k) {
                    *rng.pick(&e.numbers)
                } else {
                    let m = &s.masks[&k];
                    rng.u32() & m.all
                };
                b.extend_from_slice(&w.to_le_bytes());
            }
        }
    }
    // ragged tail: any residue mod 4
    if rng.chance(1, 2) {
        let cut = rng.below(4) as usize;
        let l = b.len().saturating_sub(cut);
        b.truncate(l);
    }
    b
}

impl Property for C11 {
    type Trace = Trace;
    const ID: &'static str = "C11";

    fn runs(tier: Tier) -> u64 {
        match tier {
            Tier::Quick => 600_000,
            Tier::Thorough => 60_000_000,
        }
    }

    fn generate(rng: &mut Rng, _tier: Tier) -> Trace {
        if rng.chance(1, 8) {
            // enumeration probe: one declared (kind, number) pair of the 56 typed requests, or a neighbour
            let pairs = typed_pairs();
            let (idx, num) = pairs[rng.usize_below(pairs.len())];
            let w = match rng.below(6) {
                0 => num.wrapping_add(1),
                1 => num.wrapping_sub(1),
                _ => num,
            };
            let mut bytes = w.to_le_bytes().to_vec();
            if rng.chance(1, 2) {
                bytes.extend_from_slice(&rng.u32().to_le_bytes());
            }
            return Trace {
                bytes,
                flush_end: rng.chance(1, 2),
                misalign: 0,
                reqs: vec![Req::Typed(idx), Req::Offset, Req::Word],
            };
        }
        let mut bytes = gen_bytes(rng);
        if rng.chance(1, 6) {
            // a long run of plain words behind (or in front of) the mixed content
            let extra: Vec<u8> = (0..rng.range(16, 120)).flat_map(|_| rng.word().to_le_bytes()).collect();
            if rng.chance(1, 2) {
                bytes.extend_from_slice(&extra);
            } else {
                let mut e = extra;
                e.extend_from_slice(&bytes);
                bytes = e;
            }
        }
        if rng.chance(1, 3000) {
            // scale: a string whose terminator is hundreds of kilobytes away (word counts beyond 16 bits)
            let n = *rng.pick(&[262_139usize, 262_143, 262_144, 262_148, 300_001]);
            bytes = vec![b'a'; n];
            bytes.push(0);
            while bytes.len() % 4 != 0 {
                bytes.push(0);
            }
            bytes.extend_from_slice(&[1, 2, 3, 4, 5, 6, 7, 8]);
            return Trace {
                bytes,
                flush_end: true,
                misalign: 0,
                reqs: vec![Req::SetLimit(rng.range(65_536, 80_000)), Req::Str, Req::Offset, Req::Word, Req::LimitReached, Req::Word, Req::Word],
            };
        }
        let n = rng.range(5, 40) as usize;
        let words_left = (bytes.len() / 4) as u64;
        let typed_base = rng.below(TYPED_KINDS.len() as u64) as u32;
        let mut typed_n = 0u32;
        let limit_style = rng.below(4);
        let mut reqs = vec![];
        for _ in 0..n {
            let r = match rng.below(20) {
                0..=3 => Req::Word,
                4 => Req::Words(match rng.below(12) {
                    // astronomically large counts: must fail cleanly (never mid-size ones that could really allocate)
                    0 => u64::MAX,
                    1 => 1 << 62,
                    // huge counts whose byte size wraps around to a small number
                    2 => ((rng.range(1, 3)) << 62) + rng.range(1, 6),
                    3 => (1u64 << 63) + rng.range(1, 6),
                    // runs long enough for any bulk / vectorised path
                    4 | 5 => rng.range(7, 80),
                    _ => rng.below(7),
                }),
                5..=7 => Req::Str,
                8 => Req::Bit32,
                9 => Req::Bit64,
                10 => Req::Id,
                11 => Req::ExtInst,
                12 | 13 => {
                    typed_n += 1;
                    Req::Typed((typed_base + typed_n) % TYPED_KINDS.len() as u32)
                }
                14 => Req::Offset,
                15 | 16 => {
                    let v = match (limit_style, rng.below(10)) {
                        (_, 0) => 0,
                        (_, 1) => 1,
                        (0, _) => rng.below(6),
                        (1, _) => rng.range(0, words_left + 2),
                        (2, 2) => words_left + 1,
                        (2, 3) => u64::MAX / 4,
                        (2, 4) => u64::MAX / 4 + 1,
                        (2, 5) => u64::MAX,
                        (2, 6) => u64::MAX / 2,
                        (2, _) => rng.below(words_left + 1),
                        _ => rng.below(4),
                    };
                    Req::SetLimit(v)
                }
                17 => Req::ClearLimit,
                18 => Req::HasLimit,
                _ => Req::LimitReached,
            };
            reqs.push(r);
        }
        Trace {
            bytes,
            flush_end: rng.chance(3, 4),
            misalign: if rng.chance(1, 5) { rng.range(1, 3) as u8 } else { 0 },
            reqs,
        }
    }

    fn execute(t: &Trace, cov: &mut Cov) -> RunOut {
        let s = snap();
        // deliberately misaligned start: padding in front, not flush with the leading guard page
        let padded: Vec<u8>;
        let gb = if t.misalign > 0 {
            cov.hit("reached.misaligned_buffer_start");
            padded = std::iter::repeat(0xEEu8).take(t.misalign as usize).chain(t.bytes.iter().copied()).collect();
            GuardedBuf::new(&padded, false)
        } else {
            GuardedBuf::new(&t.bytes, t.flush_end)
        };
        let bytes = &gb.bytes()[(t.misalign as usize).min(gb.bytes().len())..];
        let len = bytes.len();
        let mut d = Decoder::new(bytes);
        let mut off: usize = 0;
        let mut lim = Lim::None;
        let mut h = AbsHash::new();
        let mut changes = 0u32;
        let mut failures = 0u32;
        let mut viol: Option<Violation> = None;

        let word_at = |o: usize| -> Option<u32> {
            if o + 4 <= len {
                Some(u32::from_le_bytes(bytes[o..o + 4].try_into().unwrap()))
            } else {
                None
            }
        };
        macro_rules! fail {
            ($clause:expr, $locus:expr, $step:expr, $($arg:tt)*) => {{
                viol = Some(Violation::new($clause, $locus, $step, format!($($arg)*)));
                break;
            }};
        }
        fn lim_left(l: Lim) -> Option<u64> {
            match l {
                Lim::None => None,
                Lim::Exact(n) | Lim::AtMost(n) => Some(n),
            }
        }
        fn lim_mode(l: Lim) -> u32 {
            match l {
                Lim::None => 0,
                Lim::Exact(0) => 1,
                Lim::Exact(_) => 2,
                Lim::AtMost(0) => 3,
                Lim::AtMost(_) => 4,
            }
        }
        // charge `k` consumed words against the limit after a SUCCESS
        fn charge(l: Lim, k: u64) -> Lim {
            match l {
                Lim::None => Lim::None,
                Lim::Exact(n) => Lim::Exact(n - k),
                Lim::AtMost(n) => Lim::AtMost(n - k),
            }
        }

        for (step, r) in t.reqs.iter().enumerate() {
            cov.hit("steps");
            let mode = lim_mode(lim);
            let residue = (len % 4) as u32;
            let (kind_code, locus): (u32, &str) = match r {
                Req::Word => (1, "req=word"),
                Req::Words(_) => (2, "req=words"),
                Req::Str => (3, "req=string"),
                Req::Bit32 => (4, "req=bit32"),
                Req::Bit64 => (5, "req=bit64"),
                Req::Id => (6, "req=id"),
                Req::ExtInst => (7, "req=ext_inst_integer"),
                Req::Typed(_) => (8, "req=typed"),
                Req::Offset => (9, "req=offset"),
                Req::SetLimit(_) => (10, "req=set_limit"),
                Req::ClearLimit => (11, "req=clear_limit"),
                Req::HasLimit => (12, "req=has_limit"),
                Req::LimitReached => (13, "req=limit_reached"),
            };
            let mut outcome = 0u32; // 0 ok, 1 limit error, 2 stream error, 3 other error
            match r {
                Req::Word | Req::Bit32 | Req::Id | Req::ExtInst => {
                    let res = guarded(|| match r {
                        Req::Word => d.word(),
                        Req::Bit32 => d.bit32(),
                        Req::Id => d.id(),
                        _ => d.ext_inst_integer(),
                    });
                    let res = match res {
                        Ok(x) => x,
                        Err(pi) => fail!("C11.panic", locus, step, "{}", pi.detail()),
                    };
                    let exhausted = matches!(lim, Lim::Exact(0) | Lim::AtMost(0));
                    let avail = word_at(off);
                    match res {
                        Ok(v) => {
                            if exhausted {
                                fail!("C11.limit.at-most-n", locus, step, "request succeeded (value {:#x}) although the limit set earlier is exhausted", v);
                            }
                            match avail {
                                None => fail!("C11.word.within-buffer", locus, step, "request succeeded at offset {} of a {}-byte buffer", off, len),
                                Some(w) if w != v => fail!("C11.word.value", locus, step, "returned {:#x}, little-endian word at offset {} is {:#x}", v, off, w),
                                _ => {}
                            }
                            off += 4;
                            lim = charge(lim, 1);
                            changes += 1;
                            if d.offset() != off {
                                fail!("C11.word.advance", locus, step, "offset() is {} after a successful one-word request from {}", d.offset(), off - 4);
                            }
                        }
                        Err(e) => {
                            failures += 1;
                            if d.offset() != off {
                                fail!("C11.word.fail-keeps-offset", locus, step, "failed request moved the offset from {} to {}", off, d.offset());
                            }
                            if err_offset(&e) != Some(off) {
                                fail!("C11.word.fail-reports-offset", locus, step, "error {:?} does not carry the current offset {}", e, off);
                            }
                            let is_limit = matches!(e, DecodeError::LimitReached(_));
                            let is_stream = matches!(e, DecodeError::StreamExpected(_));
                            outcome = if is_limit { 1 } else if is_stream { 2 } else { 3 };
                            if exhausted {
                                if !is_limit {
                                    fail!("C11.limit.error-kind", locus, step, "limit exhausted but error is {:?}", e);
                                }
                                cov.hit("reached.word_limit_reached");
                            } else {
                                match (lim, avail) {
                                    (Lim::None, Some(_)) | (Lim::Exact(_), Some(_)) => {
                                        fail!("C11.word.must-succeed", locus, step, "request failed with {:?} although a word is available at offset {} and the limit ({:?}) allows it", e, off, lim)
                                    }
                                    (Lim::None, None) | (Lim::Exact(_), None) => {
                                        if !is_stream {
                                            fail!("C11.word.error-kind", locus, step, "at end of stream with limit {:?} the error is {:?}", lim, e);
                                        }
                                        cov.hit("reached.word_stream_expected");
                                        // whether the failed attempt was charged is unobservable: keep only the upper bound
                                        if let Lim::Exact(n) = lim {
                                            lim = Lim::AtMost(n);
                                        }
                                    }
                                    (Lim::AtMost(_), _) => {
                                        if !(is_limit || (is_stream && avail.is_none())) {
                                            fail!("C11.word.error-kind", locus, step, "unexpected error {:?} (word available: {})", e, avail.is_some());
                                        }
                                    }
                                }
                            }
                        }
                    }
                }
                Req::Words(_) | Req::Bit64 => {
                    let k: u64 = match r {
                        Req::Words(n) => *n,
                        _ => 2,
                    };
                    let res: Result<Result<Vec<u32>, DecodeError>, PanicInfo> = guarded(|| match r {
                        Req::Words(n) => d.words((*n).min(usize::MAX as u64) as usize),
                        _ => d.bit64().map(|v| vec![v as u32, (v >> 32) as u32]),
                    });
                    let res = match res {
                        Ok(x) => x,
                        Err(pi) => fail!("C11.panic", locus, step, "{}", pi.detail()),
                    };
                    let fits_buf = k <= ((len.saturating_sub(off)) / 4) as u64;
                    let fits_lim = lim_left(lim).map(|n| n >= k).unwrap_or(true);
                    match res {
                        Ok(vals) => {
                            if !fits_lim {
                                fail!("C11.limit.at-most-n", locus, step, "{}-word request succeeded with only {:?} words left under the limit", k, lim_left(lim));
                            }
                            if !fits_buf {
                                fail!("C11.word.within-buffer", locus, step, "{}-word request succeeded at offset {} of a {}-byte buffer", k, off, len);
                            }
                            if vals.len() as u64 != k {
                                fail!("C11.word.value", locus, step, "{} words requested, {} returned", k, vals.len());
                            }
                            for (i, v) in vals.iter().enumerate() {
                                let w = word_at(off + 4 * i).unwrap();
                                if w != *v {
                                    fail!("C11.word.value", locus, step, "word {} of the reply is {:#x}, buffer holds {:#x} (64-bit literals are low word first)", i, v, w);
                                }
                            }
                            if viol.is_some() {
                                break;
                            }
                            off += 4 * k as usize;
                            lim = charge(lim, k);
                            if k > 0 {
                                changes += 1;
                            }
                            if d.offset() != off {
                                fail!("C11.word.advance", locus, step, "offset() is {} after a successful {}-word request ending at {}", d.offset(), k, off);
                            }
                        }
                        Err(e) => {
                            failures += 1;
                            outcome = match e {
                                DecodeError::LimitReached(_) => 1,
                                DecodeError::StreamExpected(_) => 2,
                                _ => 3,
                            };
                            if fits_buf && fits_lim && !matches!(lim, Lim::AtMost(_)) {
                                fail!("C11.word.must-succeed", locus, step, "{}-word request failed with {:?} although buffer and limit ({:?}) allow it", k, e, lim);
                            }
                            // documented: an unsuccessful multi-word request may consume any number of bytes
                            let new = d.offset();
                            let moved = new.wrapping_sub(off);
                            if new < off || moved % 4 != 0 || (moved / 4) as u64 > k || new > len.max(off) {
                                fail!("C11.fail.bounded-consumption", locus, step, "after the failed request the offset went from {} to {} (buffer {} bytes, request {} words)", off, new, len, k);
                            }
                            let used = (moved / 4) as u64;
                            if let Some(n) = lim_left(lim) {
                                if used > n {
                                    fail!("C11.limit.at-most-n", locus, step, "failed request consumed {} words with {} left under the limit", used, n);
                                }
                                lim = Lim::AtMost(n - used);
                                cov.hit("reached.multiword_failure_under_limit");
                            }
                            off = new;
                        }
                    }
                }
                Req::Typed(idx) => {
                    let idx = *idx as usize;
                    let kind = s.kind(TYPED_KINDS[idx]);
                    let res = match guarded(|| decode_typed(&mut d, idx)) {
                        Ok(x) => x,
                        Err(pi) => fail!("C11.panic", locus, step, "{}", pi.detail()),
                    };
                    let exhausted = matches!(lim, Lim::Exact(0) | Lim::AtMost(0));
                    let avail = word_at(off);
                    match res {
                        Ok(v) => {
                            if exhausted {
                                fail!("C11.limit.at-most-n", locus, step, "typed request succeeded although the limit is exhausted");
                            }
                            match avail {
                                None => fail!("C11.word.within-buffer", locus, step, "typed request succeeded at offset {} of a {}-byte buffer", off, len),
                                Some(w) => {
                                    if !s.valid_word(kind, w) {
                                        fail!("C11.typed.value", "req=typed", step, "{} request returned a value for the undeclared number {}", TYPED_KINDS[idx], w);
                                    }
                                    if w != v {
                                        fail!("C11.typed.value", "req=typed", step, "{} request returned number {} for word {}", TYPED_KINDS[idx], v, w);
                                    }
                                }
                            }
                            off += 4;
                            lim = charge(lim, 1);
                            changes += 1;
                            cov.item(idx as u32);
                            if d.offset() != off {
                                fail!("C11.word.advance", locus, step, "offset() is {} after a successful typed request from {}", d.offset(), off - 4);
                            }
                        }
                        Err(e) => {
                            failures += 1;
                            outcome = match e {
                                DecodeError::LimitReached(_) => 1,
                                DecodeError::StreamExpected(_) => 2,
                                _ => 3,
                            };
                            if let Some(w) = avail {
                                if s.valid_word(kind, w) && !exhausted && !matches!(lim, Lim::AtMost(_)) {
                                    fail!("C11.typed.must-succeed", "req=typed", step, "{} request failed with {:?} on the declared number {} (limit {:?})", TYPED_KINDS[idx], e, w, lim);
                                }
                                if outcome == 3 {
                                    cov.hit("reached.typed_unknown_value");
                                }
                            }
                            let new = d.offset();
                            let moved = new.wrapping_sub(off);
                            if new < off || moved % 4 != 0 || moved > 4 || new > len.max(off) {
                                fail!("C11.fail.bounded-consumption", locus, step, "after the failed typed request the offset went from {} to {}", off, new);
                            }
                            let used = (moved / 4) as u64;
                            if let Some(n) = lim_left(lim) {
                                if used > n {
                                    fail!("C11.limit.at-most-n", locus, step, "failed typed request consumed a word with none left under the limit");
                                }
                                lim = Lim::AtMost(n - used);
                            }
                            off = new;
                        }
                    }
                }
                Req::Str => {
                    let res = match guarded(|| d.string()) {
                        Ok(x) => x,
                        Err(pi) => fail!("C11.panic", locus, step, "{}", pi.detail()),
                    };
                    // scan window: inside the buffer and inside the limit
                    let lim_bytes: usize = match lim_left(lim) {
                        None => usize::MAX,
                        Some(n) => (n as u128 * 4).min(usize::MAX as u128) as usize,
                    };
                    let start = off.min(len);
                    let end = start.saturating_add(lim_bytes).min(len);
                    let window = &bytes[start..end];
                    let nul = window.iter().position(|c| *c == 0);
                    if lim != Lim::None {
                        cov.hit("reached.string_under_limit");
                        if (off as u128) + (lim_bytes as u128) > len as u128 {
                            cov.hit("reached.string_limit_past_eof");
                        }
                    }
                    match res {
                        Ok(st) => {
                            let p = match nul {
                                None => fail!("C11.string.terminated-in-window", locus, step, "string() returned {:?} but there is no NUL within the limit ({:?}) and the buffer from offset {}", st, lim, off),
                                Some(p) => p,
                            };
                            if st.as_bytes() != &window[..p] {
                                fail!("C11.string.value", locus, step, "string() returned {:?}, bytes up to the NUL are {:?}", st, String::from_utf8_lossy(&window[..p]));
                            }
                            let consumed = p / 4 + 1;
                            let new = d.offset();
                            if new != off + 4 * consumed {
                                fail!("C11.string.advance", locus, step, "string of {} bytes + NUL at offset {} must consume {} words; offset() went to {}", p, off, consumed, new);
                            }
                            if new > len {
                                fail!("C11.string.within-buffer", locus, step, "string() succeeded and advanced the offset to {} beyond the {}-byte buffer", new, len);
                            }
                            if let Some(n) = lim_left(lim) {
                                if consumed as u64 > n {
                                    fail!("C11.limit.at-most-n", locus, step, "string consumed {} words with {} left under the limit", consumed, n);
                                }
                            }
                            off = new;
                            lim = charge(lim, consumed as u64);
                            changes += 1;
                            cov.hit("reached.string_ok");
                            if p % 4 == 3 {
                                cov.hit("reached.string_len_3_mod_4");
                            }
                        }
                        Err(e) => {
                            failures += 1;
                            outcome = match e {
                                DecodeError::LimitReached(_) => 1,
                                DecodeError::StreamExpected(_) => 2,
                                _ => 3,
                            };
                            if let Some(p) = nul {
                                let consumed = p / 4 + 1;
                                let fits = off + 4 * consumed <= len;
                                let utf8 = std::str::from_utf8(&window[..p]).is_ok();
                                if fits && utf8 && !matches!(lim, Lim::AtMost(_)) {
                                    fail!("C11.string.must-succeed", locus, step, "string() failed with {:?} although a valid NUL-terminated UTF-8 string of {} bytes lies at offset {} within limit {:?}", e, p, off, lim);
                                }
                                if !utf8 {
                                    cov.hit("reached.string_invalid_utf8");
                                }
                                if !fits {
                                    cov.hit("reached.string_padding_word_outside_buffer");
                                }
                            } else {
                                cov.hit("reached.string_unterminated");
                            }
                            let new = d.offset();
                            if new < off || (new - off) % 4 != 0 || new > len.max(off) {
                                fail!("C11.fail.bounded-consumption", locus, step, "after the failed string request the offset went from {} to {} (buffer {} bytes)", off, new, len);
                            }
                            let used = ((new - off) / 4) as u64;
                            if let Some(n) = lim_left(lim) {
                                if used > n {
                                    fail!("C11.limit.at-most-n", locus, step, "failed string request consumed {} words with {} left under the limit", used, n);
                                }
                                lim = Lim::AtMost(n - used);
                            }
                            off = new;
                        }
                    }
                }
                Req::Offset => {
                    let o = d.offset();
                    if o != off {
                        fail!("C11.offset", locus, step, "offset() is {}, model says {}", o, off);
                    }
                }
                Req::SetLimit(n) => {
                    let n = (*n).min(usize::MAX as u64);
                    d.set_limit(n as usize);
                    lim = Lim::Exact(n);
                    changes += 1;
                    if !d.has_limit() {
                        fail!("C11.limit.has-limit", locus, step, "has_limit() is false right after set_limit({})", n);
                    }
                    if d.limit_reached() != (n == 0) {
                        fail!("C11.limit.reached-flag", locus, step, "limit_reached() is {} right after set_limit({})", d.limit_reached(), n);
                    }
                }
                Req::ClearLimit => {
                    d.clear_limit();
                    lim = Lim::None;
                    if d.has_limit() || d.limit_reached() {
                        fail!("C11.limit.clear", locus, step, "after clear_limit(): has_limit()={} limit_reached()={}", d.has_limit(), d.limit_reached());
                    }
                }
                Req::HasLimit => {
                    if d.has_limit() != (lim != Lim::None) {
                        fail!("C11.limit.has-limit", locus, step, "has_limit() is {} but the model's limit is {:?}", d.has_limit(), lim);
                    }
                }
                Req::LimitReached => {
                    let got = d.limit_reached();
                    let want = match lim {
                        Lim::None => Some(false),
                        Lim::Exact(n) => Some(n == 0),
                        Lim::AtMost(0) => Some(true),
                        Lim::AtMost(_) => None,
                    };
                    if let Some(w) = want {
                        if got != w {
                            fail!("C11.limit.reached-flag", locus, step, "limit_reached() is {} but the model's limit is {:?}", got, lim);
                        }
                    }
                }
            }
            match outcome {
                1 => cov.hit("fault.limit_exhausted_inside_request"),
                2 => cov.hit("fault.eof_inside_request"),
                3 => cov.hit("fault.undecodable_content"),
                _ => {}
            }
            h.push(kind_code, outcome * 8 + mode);
            cov.triple(mode * 4 + residue, kind_code, outcome);
        }
        RunOut {
            violation: viol,
            abs_hash: h.0,
            nontrivial: changes >= 3 || failures >= 1,
        }
    }

    fn shrink(t: &Trace) -> Vec<Trace> {
        let mut out = vec![];
        let n = t.reqs.len();
        if t.misalign > 0 {
            let mut c = t.clone();
            c.misalign = 0;
            out.push(c);
        }
        if n > 1 {
            let mut c = t.clone();
            c.reqs.truncate(n / 2);
            out.push(c);
            let mut c = t.clone();
            c.reqs.drain(..n / 2);
            out.push(c);
        }
        for i in 0..n {
            let mut c = t.clone();
            c.reqs.remove(i);
            out.push(c);
        }
        for k in [t.bytes.len() / 2, 4, 1] {
            if k > 0 && t.bytes.len() > k {
                let mut c = t.clone();
                c.bytes.truncate(t.bytes.len() - k);
                out.push(c);
                let mut c = t.clone();
                c.bytes.drain(..k.min(t.bytes.len()) / 4 * 4);
                if c.bytes.len() != t.bytes.len() {
                    out.push(c);
                }
            }
        }
        for i in 0..n {
            match &t.reqs[i] {
                Req::SetLimit(v) if *v > 0 => {
                    for nv in [0, 1, v / 2, v - 1] {
                        if nv != *v {
                            let mut c = t.clone();
                            c.reqs[i] = Req::SetLimit(nv);
                            out.push(c);
                        }
                    }
                }
                Req::Words(v) if *v > 0 => {
                    let mut c = t.clone();
                    c.reqs[i] = Req::Words(v - 1);
                    out.push(c);
                }
                _ => {}
            }
        }
        for i in 0..t.bytes.len().min(512) {
            if t.bytes[i] != 0 && t.bytes[i] != b'A' {
                let mut c = t.clone();
                c.bytes[i] = if t.bytes[i] > 0x7f { b'A' } else { 0 };
                out.push(c);
            }
        }
        out
    }

    fn meta() -> Meta {
        Meta {
            level: "exploration",
            rule: "each run is one seeded buffer (0-96 bytes, any length residue mod 4, content biased to NULs, valid/invalid UTF-8 and valid/invalid enumerant numbers) and 5-40 decoder requests / limit changes, checked step by step against a 2-field reference decoder; abstract trace = sequence of (request kind, outcome class, limit mode); non-trivial = >= 3 state-changing requests or >= 1 failed request; distinct = distinct abstract traces among non-trivial runs",
            lanes: "1 run in 8 is an enumeration probe over every declared (typed request, number) pair and its neighbours; words(n) with n = 2^62, usize::MAX and wrap-around values 2^62*j+k; BOM content; 262 KiB strings under limits beyond 16 bits; buffers that start 1..3 bytes past a word boundary (1 run in 5); runs of 16..120 plain words and words(7..80)",
            triple_measure: "(limit mode x buffer-length residue, request kind, outcome class)",
            item_measure: "typed decoder requests (of 56) that succeeded at least once",
            assumptions: &[
                "the crate documents that an unsuccessful multi-word / typed / string request may consume any number of bytes: after such a failure the model re-synchronises from offset() (aligned, bounded by the request and the buffer) and keeps only the upper bound of the limit",
                "whether a failed raw-word request at end of stream is charged against the limit is unobservable and not judged",
                "grammar knowledge (valid enumerant numbers, mask bits) comes from the frozen snapshot of the pinned tree",
            ],
            real_components: &["rspirv::binary::Decoder (all public methods incl. the 56 generated typed requests)"],
            simulated_components: &["byte buffer behind guard pages (EOF position, ragged tail)", "request/limit history", "reference decoder model"],
            fault_kinds: &["eof_at_any_byte", "ragged_tail", "limit_smaller_than_request", "limit_larger_than_buffer", "limit_near_usize_max"],
        }
    }

    fn crash_is_violation() -> bool {
        true
    }
}
