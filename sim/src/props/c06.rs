//! C06 — every module built with the Builder survives assemble-then-load
//! unchanged.  Complete Builder histories over the whole source-derived method
//! table -> real assemble -> real load; refinement against the recorded intent
//! (each call's emitted instruction) and equality of built and loaded module.

use crate::bdrive::*;
use crate::bglue::*;
use crate::core::*;
use crate::modcmp::{module_to_model, real_modules_equal};
use crate::model::*;
use crate::props::c12::{gen_call, shrink_ops};
use crate::rng::Rng;
use crate::snapshot::snap;
use rspirv::binary::Assemble;
use rspirv::dr;
use serde::{Deserialize, Serialize};

#[derive(Clone, Debug, Serialize, Deserialize)]
pub struct Trace {
    pub ops: Vec<BOp>,
}

pub struct C06;

fn viol(clause: &str, locus: String, step: usize, detail: String) -> Option<Violation> {
    Some(Violation::new(&format!("C06.{}", clause), locus, step, detail))
}

fn module_call(rng: &mut Rng) -> BOp {
    let c = match rng.below(8) {
        0 | 1 => MClass::Type,
        2 => MClass::ContextDependent,
        _ => MClass::ModuleLevel,
    };
    gen_call(rng, c).unwrap_or(BOp::Id)
}

impl Property for C06 {
    type Trace = Trace;
    const ID: &'static str = "C06";

    fn runs(tier: Tier) -> u64 {
        match tier {
            Tier::Quick => 120_000,
            Tier::Thorough => 12_000_000,
        }
    }

    fn generate(rng: &mut Rng, _tier: Tier) -> Trace {
        let mut ops = vec![];
        if rng.chance(1, 2) {
            ops.push(BOp::SetVersion(*rng.pick(&[1u8, 1, 1, 0, 2, 255]), rng.below(7) as u8));
        }
        // a few int/float declarations up front so that typed literals have something to refer to
        for _ in 0..rng.below(3) {
            ops.push(BOp::Id);
        }
        for _ in 0..rng.below(3) {
            ops.push(BOp::Call {
                method: if rng.chance(1, 2) { (if rng.chance(1, 2) { "type_int" } else { "type_int_id" }).into() } else { (if rng.chance(1, 2) { "type_float" } else { "type_float_id" }).into() },
                arg_seed: rng.next(),
                explicit_rid: rng.chance(1, 2),
                ip_kind: 0,
                ip_k: 0,
            });
        }
        for _ in 0..rng.below(4) {
            // ids reserved now and used later as explicit result ids (definitions out of numeric order)
            ops.push(BOp::Id);
        }
        for _ in 0..rng.below(6) {
            ops.push(module_call(rng));
        }
        if rng.chance(1, 6) {
            ops.push(BOp::SetVersion(*rng.pick(&[1u8, 1, 0, 3]), rng.below(7) as u8));
        }
        if rng.chance(1, 3) {
            // enumerant-pair sweep: two or three pairs of execution modes / decorations, each pair on one id, the
            // enumerants named by the seed (half of the pairs from the related-name pairs: LocalSize / LocalSizeId, ...)
            use crate::bdrive::{related_pairs, PAIR_MARK};
            for _ in 0..rng.range(2, 3) {
                let modes = rng.chance(1, 2);
                let (a, b) = if rng.chance(1, 2) {
                    let rp = related_pairs(if modes { "ExecutionMode" } else { "Decoration" });
                    if rp.is_empty() { (0, 1) } else { *rng.pick(rp) }
                } else {
                    (rng.below(200) as u16, rng.below(200) as u16)
                };
                let salt = rng.below(1 << 20) << 16;
                for idx in [a, b] {
                    let method = if modes {
                        if rng.chance(1, 4) { "execution_mode_id" } else { "execution_mode" }
                    } else {
                        "decorate"
                    };
                    ops.push(BOp::Call { method: method.into(), arg_seed: (PAIR_MARK << 48) | salt | idx as u64, explicit_rid: false, ip_kind: 0, ip_k: 0 });
                }
            }
        }
        let mut switch64 = false;
        if rng.chance(1, 500) {
            // scale: the largest encodable instruction / strings around 65535 bytes / 65536+ typed ids
            let op = match rng.below(3) {
                0 => BOp::Scale(0, *rng.pick(&[65_530u32, 65_531, 65_532, 65_535, 65_536, 70_000, 262_000])),
                1 => BOp::Scale(1, *rng.pick(&[65_531u32, 65_532, 65_533])),
                _ => {
                    switch64 = true;
                    BOp::Scale(2, *rng.pick(&[300u32, 4_100, 16_390, 20_000, 65_533, 65_534, 65_535, 65_536, 65_540, 70_000]))
                }
            };
            ops.push(op);
        }
        let nfuncs = if switch64 { rng.range(2, 3) } else { rng.below(4) };
        for fi in 0..nfuncs {
            ops.push(BOp::BeginFunction { explicit_id: rng.chance(1, 3), control: rng.below(16) as u32 });
            for _ in 0..rng.below(4) {
                ops.push(BOp::Parameter);
            }
            if rng.chance(1, 5) {
                // an annotation aimed at this function (argument seed = 1 mod 4: see Drv::bias_arguments)
                ops.push(BOp::Call {
                    method: rng.pick(&["decorate", "decorate", "decorate", "name", "execution_mode", "decorate_id", "decorate_string", "entry_point"]).to_string(),
                    arg_seed: rng.next() / 4 * 4 + 1,
                    explicit_rid: false,
                    ip_kind: 0,
                    ip_k: 0,
                });
            }
            // one function in six is a declaration without a body
            let nblocks = if rng.chance(1, 6) { 0 } else { rng.range(1, 4) };
            for _ in 0..nblocks {
                ops.push(BOp::BeginBlock { explicit_id: rng.chance(1, 3) });
                for _ in 0..rng.below(7) {
                    // module-level calls interleaved with function construction
                    if rng.chance(1, 6) {
                        ops.push(module_call(rng));
                    } else {
                        ops.push(gen_call(rng, MClass::Block).unwrap_or(BOp::Id));
                    }
                }
                // a terminator ends the block: insert_ forms only at the end
                // (scale lane: the later functions switch on the 64-bit constant declared behind tens of thousands of ids)
                let t = if switch64 && fi > 0 && rng.chance(1, 2) {
                    BOp::Call { method: "switch".into(), arg_seed: rng.next() / 3 * 3, explicit_rid: false, ip_kind: 0, ip_k: 0 }
                } else {
                    match gen_call(rng, MClass::Terminator) {
                        Some(BOp::Call { method, arg_seed, explicit_rid, .. }) => BOp::Call { method, arg_seed, explicit_rid, ip_kind: 0, ip_k: 0 },
                        _ => BOp::Id,
                    }
                };
                ops.push(t);
            }
            ops.push(BOp::EndFunction);
            for _ in 0..rng.below(3) {
                ops.push(module_call(rng));
            }
            if rng.chance(1, 6) {
                // the version may be set again at any time; the last call decides
                ops.push(BOp::SetVersion(*rng.pick(&[1u8, 1, 0, 3]), rng.below(7) as u8));
            }
        }
        crate::props::c12::repeat_methods(rng, &mut ops);
        Trace { ops }
    }

    fn execute(t: &Trace, cov: &mut Cov) -> RunOut {
        let s = snap();
        let mut d = Drv::new();
        let mut h = AbsHash::new();
        let mut violation = None;
        let mut emitted = 0u32;
        let mut complete = true;
        for (step, op) in t.ops.iter().enumerate() {
            cov.hit("steps");
            let rep = d.step(op);
            if rep.panic.is_some() {
                cov.hit("skipped.panicked"); // C12's clause
                complete = false;
                break;
            }
            let cls = rep.binding.as_ref().map(|b| b.class as u32 + 1).unwrap_or(0);
            h.push(rep.kind as u32 * 8 + cls, rep.binding.as_ref().map(|b| b.opcode as u32).unwrap_or(0));
            // a block method that deselected the block although it is not a terminator method: which methods
            // close a block is C16's question; re-select and carry on
            if rep.binding.as_ref().map(|b| b.class == MClass::Block).unwrap_or(false) && !rep.ret.is_err() && rep.pre_sel.b.is_some() && rep.post_sel.b.is_none() {
                cov.hit("reached.block_method_deselected_block");
                let _ = d.b.select_block(rep.pre_sel.b);
            }
            if rep.ret.is_err() {
                // (after shrinking) an illegal call: the history is no longer "complete"; not judged
                complete = false;
                continue;
            }
            if rep.kind != CallKind::Method && !matches!(rep.kind, CallKind::BeginFunction | CallKind::Parameter | CallKind::BeginBlock) {
                continue;
            }
            if rep.mismatch.is_some() {
                cov.hit("skipped.unmapped_arguments");
                if let Some(b) = &rep.binding {
                    cov.hit_dyn(format!("unmapped.{}", b.name));
                }
                continue;
            }
            let Some(want) = &rep.intended else { continue };
            if want.is("Switch") && want.ops.iter().any(|o| matches!(o, MOp::L64(_))) {
                cov.hit("reached.switch_on_a_64bit_selector");
            }
            let mname = rep.binding.as_ref().map(|b| b.name).unwrap_or(match rep.kind {
                CallKind::BeginFunction => "begin_function",
                CallKind::Parameter => "function_parameter",
                _ => "begin_block",
            });
            // the emitted instruction has the method's opcode and carries the call's arguments in grammar order
            let dl = delta(&rep.pre, &rep.post);
            let got = match &dl {
                Delta::Added(_, _, i) => Some(i.clone()),
                Delta::Same if rep.binding.as_ref().map(|b| b.class == MClass::Type).unwrap_or(false) && rep.explicit_rid.is_none() => None, // dedup hit
                Delta::Other(_) | Delta::Same if want.is("MemoryModel") => rep.post.sections[3].first().cloned(),
                _ => {
                    violation = viol("emits-one-instruction", format!("method={}", mname), step, format!("{}: expected exactly one new instruction; {:?}", rep.what, dl));
                    break;
                }
            };
            if let Some(got) = got {
                emitted += 1;
                let mut want = want.clone();
                if want.rid.is_none() && s.inst(want.opcode).map(|g| g.operands.iter().any(|(k, _)| s.cat(*k) == crate::snapshot::Cat::IdResult)).unwrap_or(false) {
                    want.rid = rep.ret.id();
                }
                if got != want {
                    let clause = if got.opcode != want.opcode {
                        "method-opcode"
                    } else if got.rtype != want.rtype || got.rid != want.rid {
                        "method-result-ids"
                    } else {
                        "method-operands"
                    };
                    let mut locus = format!("method={}", mname);
                    if clause == "method-operands" {
                        // what sits at the first differing operand position (keeps the finding specific)
                        let k = got.ops.iter().zip(want.ops.iter()).position(|(a, b)| a != b).unwrap_or(got.ops.len().min(want.ops.len()));
                        let kind = match got.ops.get(k) {
                            Some(MOp::W(kk, _)) => s.kind_name(*kk).to_string(),
                            Some(MOp::L64(_)) => "LiteralBit64".into(),
                            Some(MOp::S(_)) => "LiteralString".into(),
                            None => "nothing".into(),
                        };
                        locus.push_str(&format!(" got={}", kind));
                    }
                    violation = viol(clause, locus, step, format!("{} emitted [{}], the arguments in grammar order are [{}]", rep.what, show(&got), show(&want)));
                    break;
                }
                if let Some(b) = &rep.binding {
                    cov.item(b.midx as u32);
                }
            }
        }
        // ---- the finished module survives assemble -> load ------------------------------------------
        if violation.is_none() && complete {
            let end = t.ops.len();
            let sel = d.sel();
            if sel.f.is_some() || sel.b.is_some() {
                cov.hit("skipped.incomplete_history");
            } else {
                let used_max = d.all_ids.iter().cloned().max().unwrap_or(0);
                let version = d.version;
                let r = guarded(|| {
                    let m = std::mem::take(&mut d.b).module();
                    let w = m.assemble();
                    let l = dr::load_words(&w);
                    (m, w, l)
                });
                // "complete history": every begun block ended by a terminator call, every function ended.
                // Judged on the built module with the reference bracket automaton (a shrunk or otherwise
                // ill-formed history is outside the property's quantifier).
                let well_formed = match &r {
                    Ok((built, _, _)) => {
                        let mut a = crate::layout::Automaton::new();
                        let flat = crate::modcmp::flatten(&module_to_model(built));
                        let labelled = built.functions.iter().all(|f| f.def.is_some() && f.end.is_some() && f.blocks.iter().all(|b| b.label.is_some()));
                        // module-level instructions sit in front of the functions in assembly order, so the
                        // automaton sees exactly the bracket structure of the functions
                        labelled && flat.iter().all(|i| a.step(i).is_ok()) && a.finish().is_ok()
                    }
                    Err(_) => true,
                };
                if !well_formed {
                    cov.hit("skipped.history_not_complete");
                    return RunOut { violation: None, abs_hash: h.0, nontrivial: false };
                }
                match r {
                    Err(pi) => violation = viol("panic", pi.locus(), end, pi.detail()),
                    Ok((built, words, loaded)) => {
                        cov.hit("reached.assembled");
                        let hdr = built.header.clone().unwrap();
                        if let Some((ma, mi)) = version {
                            if hdr.version() != (ma, mi) || words[1] != ((ma as u32) << 16 | (mi as u32) << 8) {
                                violation = viol("version", "header".into(), end, format!("set_version({}, {}) but the header says {:?} / word {:#010x}", ma, mi, hdr.version(), words[1]));
                            }
                        }
                        if violation.is_none() && hdr.bound <= used_max {
                            violation = viol("bound-above-ids", "header".into(), end, format!("bound {} is not above the largest id used or returned ({})", hdr.bound, used_max));
                        }
                        if violation.is_none() {
                            match loaded {
                                Err(e) => {
                                    let culprit = match &e {
                                        rspirv::binary::ParseState::ConsumerError(b) => match b.downcast_ref::<dr::Error>() {
                                            Some(dr::Error::DetachedInstruction(Some(i))) => format!("loader=DetachedInstruction op={}", i.class.opname),
                                            Some(other) => format!("loader={:?}", other).chars().take(60).collect(),
                                            None => "loader=foreign".into(),
                                        },
                                        other => {
                                            // name the opcode at the failing instruction number, if any
                                            let c = crate::real::classify(other);
                                            let model = module_to_model(&built);
                                            let flat = crate::modcmp::flatten(&model);
                                            let op = c.index.and_then(|i| flat.get(i - 1)).map(|i| i.name()).unwrap_or_else(|| "?".into());
                                            format!("parser={:?} op={}", c.class, op)
                                        }
                                    };
                                    violation = viol("loader-accepts-built", culprit, end, format!("the assembled module is rejected: {:?}", e));
                                }
                                Ok(m2) => {
                                    cov.hit("reached.loaded_back");
                                    if let Some(dm) = real_modules_equal(&built, &m2) {
                                        // find the first differing instruction for the locus
                                        let a = crate::modcmp::flatten(&module_to_model(&built));
                                        let b = crate::modcmp::flatten(&module_to_model(&m2));
                                        let k = a.iter().zip(b.iter()).position(|(x, y)| x != y);
                                        let (op, detail) = match k {
                                            Some(k) => (a[k].name(), format!("built [{}] loaded [{}]", show(&a[k]), show(&b[k]))),
                                            None => {
                                                // same sequence, different placement
                                                let mb = module_to_model(&built);
                                                let ml = module_to_model(&m2);
                                                let moved = a.iter().find(|i| place(&mb, i) != place(&ml, i));
                                                (moved.map(|i| i.name()).unwrap_or_else(|| "?".into()), format!("same instructions, different section/function/block: {}", dm))
                                            }
                                        };
                                        violation = viol("loaded-equals-built", format!("op={}", op), end, format!("{}; {}", dm, detail));
                                    } else if m2.header.as_ref().map(|x| (x.version, x.bound)) != Some((hdr.version, hdr.bound)) {
                                        violation = viol("loaded-equals-built", "header".into(), end, "version/bound differ after load".into());
                                    }
                                }
                            }
                        }
                    }
                }
            }
        }
        RunOut {
            violation,
            abs_hash: h.0,
            nontrivial: emitted >= 3,
        }
    }

    fn shrink(t: &Trace) -> Vec<Trace> {
        shrink_ops(&t.ops).into_iter().map(|ops| Trace { ops }).collect()
    }

    fn meta() -> Meta {
        Meta {
            level: "exploration",
            rule: "each run is a complete Builder history: optional set_version, int/float declarations, module-level / type / context-dependent calls in any order and interleaved with the construction of 0-3 functions x 0-3 parameters x 1-4 blocks x 0-6 body calls drawn uniformly from the whole generated method table (plain and insert_ forms, in-range insertion points, implicit and explicit result ids taken from the builder), a terminator per block, end_function; every call's emitted instruction (found by diffing module_ref() before/after) is compared with the intended grammar-order operand list; then module() -> assemble -> load_words must succeed and the loaded module must equal the built one section by section, function by function, block by block, with the version that was set and a bound above every id used; abstract trace = sequence of (call class, opcode); non-trivial = >= 3 instructions emitted and checked",
            lanes: "argument biasing (names, function / struct / constant ids, known and NonSemantic import names fed to ext_inst, reserved ids used later as explicit result ids), repeated set_version, rare scale ops (65 535-word type_struct, 65k..262k-byte strings, 65k+ typed ids before a 64-bit type); near-repeat lane (same request again or with exactly one operand changed / toggled) and method-repeat post-pass; annotations aimed at the function being built (LinkageAttributes Import / Export among them); functions without a body; switches on 64-bit selectors; scale lane of 300..70 000 typed ids followed by functions that switch on the late 64-bit constant; enumerant-pair sweep (pairs of execution modes / decorations on one id, half of them related by name); every 64-bit-typed value as switch selector; type-aware literal specials",
            triple_measure: "n/a",
            item_measure: "Builder methods (of the source-derived table) whose emitted instruction was compared with the intent",
            assumptions: &[
                "method <-> opcode binding is by name (heck snake_case of the opcode name, plus a table for the hand-written methods); a method whose parameters cannot be zipped against the grammar operands is called but not judged and is counted as unmapped",
                "arguments are kept grammar-conforming: switch selectors and unknown result types are ids nothing defines, OpConstant result types are declared <= 32-bit types (64-bit for constant_bit64), spec_constant_op names opcodes without own operands (the method takes no nested operands)",
                "a history that (after shrinking) contains a failing call or leaves a function open is not judged",
            ],
            real_components: &["dr::Builder (all bound methods)", "Assemble for dr::Module", "dr::load_words (Parser + Loader)", "grammar::reflect as used by the loader"],
            simulated_components: &["history generator", "grammar-directed argument generator (frozen snapshot)", "intent recorder"],
            fault_kinds: &[],
        }
    }
}

fn place(m: &crate::layout::MModule, i: &MInst) -> Option<(usize, usize, usize)> {
    for (s, v) in m.sections.iter().enumerate() {
        if v.contains(i) {
            return Some((s, 0, 0));
        }
    }
    for (f, func) in m.functions.iter().enumerate() {
        if func.def.as_ref() == Some(i) || func.end.as_ref() == Some(i) || func.params.contains(i) {
            return Some((100 + f, 0, 1));
        }
        for (b, blk) in func.blocks.iter().enumerate() {
            if blk.label.as_ref() == Some(i) || blk.insts.contains(i) {
                return Some((100 + f, b, 2));
            }
        }
    }
    None
}
