//! C12 — Builder calls never panic, failed calls change nothing, structure is
//! enforced.  Call histories drawn regardless of legality (failing calls are the
//! fault dimension) incl. arbitrary selection indices; per-step invariants and
//! failure atomicity against a mirror of the module taken before each call.

use crate::bdrive::*;
use crate::bglue::*;
use crate::core::*;
use crate::layout::{MBlock, MFunction};
use crate::rng::Rng;
use crate::snapshot::snap;
use serde::{Deserialize, Serialize};

#[derive(Clone, Debug, Serialize, Deserialize)]
pub struct Trace {
    pub ops: Vec<BOp>,
}

pub struct C12;

pub fn pick_method(rng: &mut Rng, class: MClass) -> Option<String> {
    let bs = bindings();
    let c: Vec<&Binding> = bs.all.iter().filter(|b| b.class == class).collect();
    if c.is_empty() {
        None
    } else {
        Some(rng.pick(&c).name.to_string())
    }
}

pub fn gen_call(rng: &mut Rng, class: MClass) -> Option<BOp> {
    pick_method(rng, class).map(|m| BOp::Call {
        method: m,
        arg_seed: rng.next(),
        explicit_rid: rng.chance(1, 3),
        ip_kind: rng.below(4) as u8,
        ip_k: rng.below(6) as usize,
    })
}

/// Workload post-pass shared by the Builder properties: one call in eight re-issues the METHOD of an earlier call of
/// the same class, with an argument seed that makes `Drv::near_repeat` replay that call's arguments (identically or
/// with one operand changed).  Two related calls of one method in one history become common.
pub fn repeat_methods(rng: &mut Rng, ops: &mut [BOp]) {
    let bs = bindings();
    let class_of = |m: &str| bs.by_name.get(m).map(|i| bs.all[*i].class);
    let mut earlier: Vec<(String, Option<MClass>)> = vec![];
    for op in ops.iter_mut() {
        if let BOp::Call { method, arg_seed, .. } = op {
            let cls = class_of(method.as_str());
            let same: Vec<&String> = earlier.iter().filter(|(_, c)| *c == cls).map(|(m, _)| m).collect();
            if !same.is_empty() && rng.chance(1, 8) {
                *method = (*rng.pick(&same)).clone();
                *arg_seed = rng.next() / 3 * 3 + 1;
            }
            earlier.push((method.clone(), cls));
        }
    }
}

fn gen_op(rng: &mut Rng) -> BOp {
    loop {
        let op = match rng.below(40) {
            0..=3 => Some(BOp::BeginFunction { explicit_id: rng.chance(1, 3), control: rng.below(256) as u32 }),
            4..=7 => Some(BOp::EndFunction),
            8..=9 => Some(BOp::Parameter),
            10..=14 => Some(BOp::BeginBlock { explicit_id: rng.chance(1, 3) }),
            15 => Some(BOp::BeginBlockNoLabel { explicit_id: rng.chance(1, 3) }),
            16..=18 => gen_call(rng, MClass::Terminator),
            19..=24 => gen_call(rng, MClass::Block),
            25..=26 => gen_call(rng, MClass::ModuleLevel),
            27 => gen_call(rng, MClass::Type),
            28..=30 => gen_call(rng, MClass::ContextDependent),
            31..=33 => Some(BOp::SelectFunction(match rng.below(8) {
                0 => None,
                1 => Some(usize::MAX),
                2 => Some(1_000_000),
                // huge indices whose low 32 / 16 / 8 bits look like a small valid index
                3 => Some(((1u64 << 32) + rng.below(3)) as usize),
                4 => Some(((1u64 << rng.range(8, 63)) + rng.below(3)) as usize),
                _ => Some(rng.below(4) as usize),
            })),
            34..=36 => Some(BOp::SelectBlock(match rng.below(8) {
                0 => None,
                1 => Some(usize::MAX),
                2 => Some(((1u64 << 32) + rng.below(3)) as usize),
                3 => Some(((1u64 << rng.range(8, 63)) + rng.below(3)) as usize),
                _ => Some(rng.below(4) as usize),
            })),
            37 => Some(BOp::PopInstruction),
            38 => Some(BOp::Id),
            _ => Some(BOp::SelectFunctionByName(if rng.chance(1, 2) { "main".into() } else { "f".into() })),
        };
        if let Some(o) = op {
            return o;
        }
    }
}

/// stale-selection shapes the property text mentions, as prefixes
fn biased_prefix(rng: &mut Rng) -> Vec<BOp> {
    let bf = || BOp::BeginFunction { explicit_id: false, control: 0 };
    let bb = || BOp::BeginBlock { explicit_id: false };
    // name(target = a function, "main"/"f"): argument seeds 4 and 28 are 1 mod 3 -> not a near-repeat; seed % 2 == 0 picks a
    // function id, seed % 3 != 0 picks a pool name (see Drv::bias_arguments)
    let name_fn = |rng: &mut Rng| BOp::Call { method: "name".into(), arg_seed: *rng.pick(&[2u64, 8, 14, 20, 26, 32, 38, 44]), explicit_rid: false, ip_kind: 0, ip_k: 0 };
    let call = |m: &str, seed: u64, explicit: bool| BOp::Call { method: m.into(), arg_seed: seed, explicit_rid: explicit, ip_kind: 0, ip_k: 0 };
    match rng.below(9) {
        // recursive types: ids reserved, a forward pointer naming one of them, a struct containing it, then the pointer
        // itself declared with that reserved id as its EXPLICIT result id (storage classes from a small domain)
        7 | 8 => {
            let mut v = vec![BOp::Id, BOp::Id];
            v.push(call("type_forward_pointer", rng.below(50) * 2, false));
            if rng.chance(1, 2) {
                v.push(call("type_struct", rng.below(20) * 5, false));
            }
            v.push(call("type_pointer", 100 + rng.below(900), true));
            if rng.chance(1, 2) {
                v.push(call("type_pointer", 100 + rng.below(900), true));
            }
            v
        }
        // functions that share one (explicit) id, named, then selected by name while a block of the later one is open
        4 | 5 | 6 => {
            let mut v = vec![BOp::BeginFunction { explicit_id: rng.chance(1, 2), control: 0 }];
            for _ in 0..rng.below(3) {
                v.push(bb());
                v.push(bb_term(rng));
            }
            v.push(BOp::EndFunction);
            if rng.chance(1, 2) {
                v.push(name_fn(rng));
            }
            v.push(BOp::BeginFunction { explicit_id: true, control: 0x30 | (rng.below(4) as u32) << 6 });
            for _ in 0..rng.below(3) {
                v.push(bb());
                v.push(bb_term(rng));
            }
            v.push(bb());
            if rng.chance(1, 2) {
                v.push(name_fn(rng));
            }
            v.push(BOp::SelectFunctionByName(if rng.chance(1, 2) { "main".into() } else { "f".into() }));
            v
        }
        0 => vec![bf(), bb(), BOp::EndFunction],
        1 => vec![bf(), bb(), BOp::EndFunction, bf()],
        2 => vec![bf(), bb(), bb_term(rng), bb(), BOp::EndFunction, bf(), BOp::SelectFunction(Some(0))],
        _ => vec![bf(), bb(), bb_term(rng), BOp::EndFunction, bf(), bb(), BOp::SelectFunction(Some(0))],
    }
}

fn bb_term(rng: &mut Rng) -> BOp {
    gen_call(rng, MClass::Terminator).unwrap_or(BOp::EndFunction)
}

fn viol(clause: &str, locus: String, step: usize, detail: String) -> Option<Violation> {
    Some(Violation::new(&format!("C12.{}", clause), locus, step, detail))
}

fn call_label(rep: &Report) -> String {
    match rep.kind {
        CallKind::Method => match &rep.binding {
            Some(b) => match b.class {
                MClass::Block => format!("call=block-instruction{}", if b.insert { "(insert)" } else { "" }),
                MClass::Terminator => format!("call=terminator{}", if b.insert { "(insert)" } else { "" }),
                MClass::Type => "call=type".into(),
                MClass::ModuleLevel => "call=module-level".into(),
                MClass::ContextDependent => format!("call={}", b.name),
            },
            None => "call=unbound".into(),
        },
        k => format!("call={:?}", k),
    }
}

/// Judge one executed step. Shared with the other Builder properties for the no-panic clause.
pub fn judge_step(rep: &Report, step: usize, cov: &mut Cov) -> Option<Violation> {
    let s = snap();
    let label = call_label(rep);
    if let Some(pi) = &rep.panic {
        return viol("no-panic", format!("{} {}", label, pi.locus()), step, format!("{} panicked: {}", rep.what, pi.detail()));
    }
    // --- selection invariant after every call ------------------------------------------------
    let nf = rep.post.functions.len();
    match rep.post_sel.f {
        Some(f) if f >= nf => return viol("selection-valid", format!("{} selected_function", label), step, format!("after {}: selected_function() = {} but the module has {} functions", rep.what, f, nf)),
        _ => {}
    }
    if let Some(b) = rep.post_sel.b {
        match rep.post_sel.f {
            None => return viol("selection-valid", format!("{} selected_block-without-function", label), step, format!("after {}: selected_block() = {} while no function is selected", rep.what, b)),
            Some(f) => {
                let nb = rep.post.functions[f].blocks.len();
                if b >= nb {
                    return viol("selection-valid", format!("{} selected_block-out-of-range", label), step, format!("after {}: selected_block() = {} but function {} has {} blocks", rep.what, b, f, nb));
                }
            }
        }
    }
    if rep.mismatch.is_some() && rep.kind == CallKind::Method {
        cov.hit("skipped.unmapped_arguments");
        // arguments could not be zipped: only the generic clauses above are judged
        return None;
    }
    let fopen = rep.pre_sel.f.is_some();
    let bopen = rep.pre_sel.b.is_some();
    let is_err = rep.ret.is_err();
    let d = delta(&rep.pre, &rep.post);
    // --- a call that returns an error leaves the instructions exactly as they were --------------
    if is_err && rep.pre != rep.post {
        return viol("error-atomic", label.clone(), step, format!("{} returned Err({}) but the module changed: {:?}", rep.what, rep.ret.err().unwrap_or("?"), d));
    }
    // ... and (title: "failed calls change nothing") does not move the selection either
    if is_err && rep.pre_sel != rep.post_sel {
        return viol("error-atomic-selection", label.clone(), step, format!("{} returned Err({}) but the selection went from {:?} to {:?}", rep.what, rep.ret.err().unwrap_or("?"), rep.pre_sel, rep.post_sel));
    }
    let expect_err = |must_fail: bool, why: &str| -> Option<Violation> {
        if must_fail && !is_err {
            return viol("must-fail", label.clone(), step, format!("{} succeeded although {}", rep.what, why));
        }
        if !must_fail && is_err {
            return viol("must-succeed", label.clone(), step, format!("{} failed with {} although {}", rep.what, rep.ret.err().unwrap_or("?"), why));
        }
        None
    };
    let state_code = fopen as u32 + 2 * bopen as u32;
    cov.triple(state_code, rep.kind as u32 * 8 + rep.binding.as_ref().map(|b| b.class as u32 + 1).unwrap_or(0), is_err as u32);
    match rep.kind {
        CallKind::BeginFunction => {
            if let Some(v) = expect_err(fopen, if fopen { "a function is open" } else { "no function is open" }) {
                return Some(v);
            }
            if !is_err {
                let mut exp = rep.pre.clone();
                let def = rep.post.functions.last().and_then(|f| f.def.clone());
                exp.functions.push(MFunction { def: def.clone(), ..Default::default() });
                if exp != rep.post || def.as_ref().map(|d| d.opcode) != Some(s.op("Function")) {
                    return viol("effect", label, step, format!("{}: expected exactly one new function holding its OpFunction; delta {:?}", rep.what, d));
                }
                if rep.post_sel.f != Some(nf - 1) {
                    return viol("effect", label, step, format!("{}: the new function is not selected (selected_function() = {:?})", rep.what, rep.post_sel.f));
                }
            }
        }
        CallKind::EndFunction => {
            if let Some(v) = expect_err(!fopen, if fopen { "a function is open" } else { "no function is open" }) {
                return Some(v);
            }
            if !is_err {
                let f = rep.pre_sel.f.unwrap();
                let mut exp = rep.pre.clone();
                exp.functions[f].end = rep.post.functions.get(f).and_then(|x| x.end.clone());
                if exp != rep.post || exp.functions[f].end.as_ref().map(|e| e.opcode) != Some(s.op("FunctionEnd")) {
                    return viol("effect", label, step, format!("{}: expected OpFunctionEnd on function {} and nothing else; delta {:?}", rep.what, f, d));
                }
                if rep.post_sel.f.is_some() || rep.post_sel.b.is_some() {
                    return viol("end-function-closes", label, step, format!("after {}: selection is {:?} (ending a function must close it)", rep.what, rep.post_sel));
                }
            }
        }
        CallKind::Parameter => {
            if let Some(v) = expect_err(!fopen, if fopen { "a function is open" } else { "no function is open" }) {
                return Some(v);
            }
            if !is_err {
                match &d {
                    Delta::Added(Place::Param(f), _, i) if Some(*f) == rep.pre_sel.f && i.opcode == s.op("FunctionParameter") => {}
                    _ => return viol("effect", label, step, format!("{}: expected one OpFunctionParameter appended to function {:?}; delta {:?}", rep.what, rep.pre_sel.f, d)),
                }
            }
        }
        CallKind::BeginBlock | CallKind::BeginBlockNoLabel => {
            let must_fail = !fopen || bopen;
            if let Some(v) = expect_err(must_fail, if !fopen { "no function is open" } else if bopen { "a block is open" } else { "a function is open and no block is" }) {
                return Some(v);
            }
            if !is_err {
                let f = rep.pre_sel.f.unwrap();
                let mut exp = rep.pre.clone();
                let label_inst = rep.post.functions.get(f).and_then(|x| x.blocks.last()).and_then(|b| b.label.clone());
                exp.functions[f].blocks.push(MBlock { label: label_inst.clone(), insts: vec![] });
                let want_label = rep.kind == CallKind::BeginBlock;
                if exp != rep.post || label_inst.is_some() != want_label {
                    return viol("effect", label, step, format!("{}: expected one new empty block in function {}; delta {:?}", rep.what, f, d));
                }
                if rep.post_sel.b != Some(rep.post.functions[f].blocks.len() - 1) {
                    return viol("effect", label, step, format!("{}: the new block is not selected", rep.what));
                }
            }
        }
        CallKind::Pop => {
            if !is_err {
                match &d {
                    Delta::Removed(Place::Block(f, b), idx, _) if Some(*f) == rep.pre_sel.f && Some(*b) == rep.pre_sel.b && *idx + 1 == rep.pre.functions[*f].blocks[*b].insts.len() => {}
                    _ => return viol("effect", label, step, format!("{}: expected the last instruction of the selected block to be removed; delta {:?}", rep.what, d)),
                }
            }
        }
        CallKind::SelectFunction | CallKind::SelectBlock | CallKind::SelectFunctionByName | CallKind::Id | CallKind::SetVersion => {
            if rep.pre != rep.post {
                return viol("effect", label, step, format!("{} changed the instructions of the module: {:?}", rep.what, d));
            }
        }
        CallKind::Continue => {}
        CallKind::Method => {
            let Some(bind) = &rep.binding else { return None };
            match bind.class {
                MClass::Block | MClass::Terminator => {
                    if let Some(v) = expect_err(!bopen, if bopen { "a block is selected" } else { "no block is selected" }) {
                        return Some(v);
                    }
                    if !is_err {
                        let (f, b) = (rep.pre_sel.f.unwrap_or(0), rep.pre_sel.b.unwrap());
                        let len = rep.pre.functions.get(f).and_then(|x| x.blocks.get(b)).map(|x| x.insts.len());
                        let want_idx = len.and_then(|l| rep.ip.index(l));
                        // mirror: the block as it was, with the new instruction at the insertion point
                        let placed = want_idx.and_then(|w| rep.post.functions.get(f).and_then(|x| x.blocks.get(b)).and_then(|x| x.insts.get(w)).cloned());
                        let ok = match (&placed, want_idx) {
                            (Some(i), Some(w)) if i.opcode == bind.opcode => {
                                let mut exp = rep.pre.clone();
                                exp.functions[f].blocks[b].insts.insert(w, i.clone());
                                exp == rep.post
                            }
                            _ => false,
                        };
                        if !ok {
                            return viol(
                                "effect",
                                label,
                                step,
                                format!("{}: expected one Op{} at index {:?} of block {} of function {}; delta {:?}", rep.what, s.inst(bind.opcode).map(|g| g.name.as_str()).unwrap_or("?"), want_idx, b, f, d),
                            );
                        }
                        if bind.class == MClass::Terminator && rep.post_sel.b.is_some() {
                            return viol("terminator-closes", label, step, format!("after {}: selected_block() = {:?} (a terminator must close the block)", rep.what, rep.post_sel.b));
                        }
                        cov.item(bind.midx as u32);
                    } else {
                        cov.hit("reached.block_call_failed_without_block");
                    }
                }
                MClass::ModuleLevel | MClass::Type | MClass::ContextDependent => {
                    let in_block = bind.class == MClass::ContextDependent && bopen;
                    match &d {
                        Delta::Added(Place::Section(_), _, i) if !in_block && i.opcode == bind.opcode => {
                            // appended to the END of one module-level section
                            if let Delta::Added(Place::Section(sec), idx, _) = &d {
                                if *idx + 1 != rep.post.sections[*sec].len() {
                                    return viol("effect", label, step, format!("{}: instruction landed at index {} of section {}, not at its end", rep.what, idx, sec));
                                }
                            }
                        }
                        Delta::Added(Place::Block(f, b), idx, i) if in_block && Some(*f) == rep.pre_sel.f && Some(*b) == rep.pre_sel.b && i.opcode == bind.opcode && *idx + 1 == rep.post.functions[*f].blocks[*b].insts.len() => {
                            cov.hit("reached.context_dependent_in_block");
                        }
                        Delta::Same if bind.class == MClass::Type && rep.explicit_rid.is_none() => {
                            cov.hit("reached.type_dedup_hit");
                        }
                        Delta::Other(_) if s.inst(bind.opcode).map(|g| g.name == "MemoryModel").unwrap_or(false) => {
                            // the single memory-model slot was replaced
                            let mut exp = rep.pre.clone();
                            exp.sections[3] = rep.post.sections[3].clone();
                            if exp != rep.post || rep.post.sections[3].len() != 1 {
                                return viol("effect", label, step, format!("{}: unexpected change {:?}", rep.what, d));
                            }
                        }
                        Delta::Same if s.inst(bind.opcode).map(|g| g.name == "MemoryModel").unwrap_or(false) => {}
                        _ => {
                            return viol(
                                "effect",
                                label,
                                step,
                                format!("{}: expected exactly one Op{} appended to {}; delta {:?}", rep.what, s.inst(bind.opcode).map(|g| g.name.as_str()).unwrap_or("?"), if in_block { "the selected block" } else { "a module-level section" }, d),
                            )
                        }
                    }
                    cov.item(bind.midx as u32);
                }
            }
        }
    }
    None
}

impl Property for C12 {
    type Trace = Trace;
    const ID: &'static str = "C12";

    fn runs(tier: Tier) -> u64 {
        match tier {
            Tier::Quick => 300_000,
            Tier::Thorough => 30_000_000,
        }
    }

    fn generate(rng: &mut Rng, _tier: Tier) -> Trace {
        let mut ops = if rng.chance(1, 4) { biased_prefix(rng) } else { vec![] };
        if rng.chance(1, 1500) {
            // scale: one function with hundreds of parameters / blocks (limits at 255/256, 1023/1024)
            ops.push(BOp::BeginFunction { explicit_id: false, control: 0 });
            let n = *rng.pick(&[255usize, 256, 257, 300, 1023, 1025]);
            for _ in 0..n {
                ops.push(BOp::Parameter);
            }
            if rng.chance(1, 2) {
                for _ in 0..rng.range(255, 300) {
                    ops.push(BOp::BeginBlock { explicit_id: false });
                    ops.push(gen_call(rng, MClass::Terminator).unwrap_or(BOp::Id));
                }
            }
            ops.push(BOp::EndFunction);
        }
        let n = rng.range(5, 60) as usize;
        // swarm: some runs are mostly legal (deep structures), some mostly random
        let legal_bias = rng.below(3);
        let mut fopen = false;
        let mut bopen = false;
        for _ in 0..n {
            let op = if legal_bias > 0 && rng.chance(legal_bias, 3) {
                // a call that is legal in the (approximate) current state
                match (fopen, bopen) {
                    (false, _) => {
                        if rng.chance(1, 2) {
                            BOp::BeginFunction { explicit_id: rng.chance(1, 3), control: rng.below(256) as u32 }
                        } else {
                            gen_call(rng, MClass::ModuleLevel).unwrap_or(BOp::Id)
                        }
                    }
                    (true, false) => match rng.below(6) {
                        0 => BOp::Parameter,
                        1 => BOp::EndFunction,
                        // module-level annotation aimed at the open function (arg_seed = 1 mod 4: see Drv::bias_arguments)
                        2 => BOp::Call {
                            method: rng.pick(&["decorate", "decorate", "decorate", "name", "execution_mode", "decorate_id", "decorate_string", "capability"]).to_string(),
                            arg_seed: rng.next() / 4 * 4 + 1,
                            explicit_rid: false,
                            ip_kind: 0,
                            ip_k: 0,
                        },
                        _ => BOp::BeginBlock { explicit_id: rng.chance(1, 4) },
                    },
                    (true, true) => match rng.below(6) {
                        0 | 1 => gen_call(rng, MClass::Terminator).unwrap_or(BOp::Id),
                        2 => gen_call(rng, MClass::ContextDependent).unwrap_or(BOp::Id),
                        _ => gen_call(rng, MClass::Block).unwrap_or(BOp::Id),
                    },
                }
            } else {
                gen_op(rng)
            };
            match &op {
                BOp::BeginFunction { .. } if !fopen => fopen = true,
                BOp::EndFunction => {
                    fopen = false;
                    bopen = false;
                }
                BOp::BeginBlock { .. } | BOp::BeginBlockNoLabel { .. } if fopen && !bopen => bopen = true,
                BOp::Call { method, .. } => {
                    if bindings().by_name.get(method.as_str()).map(|i| bindings().all[*i].class == MClass::Terminator).unwrap_or(false) {
                        bopen = false;
                    }
                }
                BOp::SelectFunction(_) | BOp::SelectBlock(_) => {
                    fopen = rng.chance(1, 2);
                    bopen = fopen && rng.chance(1, 2);
                }
                _ => {}
            }
            ops.push(op);
        }
        repeat_methods(rng, &mut ops);
        Trace { ops }
    }

    fn execute(t: &Trace, cov: &mut Cov) -> RunOut {
        let mut d = Drv::new();
        d.allow_ill_typed = true;
        let mut h = AbsHash::new();
        let mut viol = None;
        let mut changes = 0u32;
        let mut failures = 0u32;
        for (step, op) in t.ops.iter().enumerate() {
            cov.hit("steps");
            let rep = d.step(op);
            let outcome = if rep.panic.is_some() { 2 } else if rep.ret.is_err() { 1 } else { 0 };
            if outcome == 1 {
                failures += 1;
                cov.hit("fault.failing_call");
            }
            if rep.pre != rep.post {
                changes += 1;
            }
            h.push(rep.kind as u32 * 8 + rep.binding.as_ref().map(|b| b.class as u32 + 1).unwrap_or(0), outcome * 4 + rep.pre_sel.f.is_some() as u32 * 2 + rep.pre_sel.b.is_some() as u32);
            if let Some(v) = judge_step(&rep, step, cov) {
                viol = Some(v);
                break;
            }
            if rep.panic.is_some() {
                break;
            }
        }
        RunOut {
            violation: viol,
            abs_hash: h.0,
            nontrivial: changes >= 3 || failures >= 1,
        }
    }

    fn shrink(t: &Trace) -> Vec<Trace> {
        shrink_ops(&t.ops).into_iter().map(|ops| Trace { ops }).collect()
    }

    /// "no call panics": a call that kills the process or never returns is worse than one that unwinds
    fn crash_is_violation() -> bool {
        true
    }

    fn meta() -> Meta {
        Meta {
            level: "exploration",
            rule: "each run is a history of 5-60 Builder calls drawn regardless of whether they are legal now (failing calls are the fault dimension): begin/end function, parameters, begin_block / begin_block_no_label, all terminators and a rotating sample of block-instruction methods in plain and insert_ form (insertion points within the selected block), module-level, type and context-dependent calls (variable, undef, line, no_line), select_function / select_block with any index (in range, = len, huge, None), select_function_by_name, pop_instruction, id(); a quarter of the runs start with one of the stale-selection shapes; after every call: no panic, selection designates an existing function/block or nothing, Err iff the stated rule on the selection observed before the call, Err leaves the module unchanged, Ok has exactly the documented effect; abstract trace = sequence of (call class, outcome, selection shape before); non-trivial = >= 3 state changes or >= 1 failing call",
            lanes: "failed calls must not move the selection either; indices 2^32+k and 2^j+k; functions with 255..1025 parameters and hundreds of blocks; entry-point / OpName names biased to the pool select_function_by_name uses; near-repeat lane and method-repeat post-pass; annotations aimed at the open function (decorate LinkageAttributes, name, execution_mode, ...); functions sharing one explicit id, named and selected by name while a later block is open; switches whose case literals mix one- and two-word variants; recursive-type scenario (reserved ids, forward pointer, struct, pointer declared under the reserved id)",
            triple_measure: "(selection shape before the call, call class, ok/err)",
            item_measure: "Builder methods (of the generated table) whose effect was checked at least once",
            assumptions: &[
                "where the statement is silent the model observes instead of predicting: which module-level section a call appends to (C06's question), the block selection after select_function(Some(i)), success/failure of select_* and pop_instruction",
                "concrete arguments of a bound method call are a pure function of (arg_seed stored in the trace, ids the builder handed out so far)",
            ],
            real_components: &["dr::Builder (hand-written and generated methods via the source-derived call table)", "InsertPoint handling"],
            simulated_components: &["call-history generator (legal and illegal calls)", "mirror of the module before each call + expected-effect model"],
            fault_kinds: &["failing_call"],
        }
    }
}

/// generic shrinker for Builder op lists
pub fn shrink_ops(ops: &[BOp]) -> Vec<Vec<BOp>> {
    let mut out = vec![];
    let n = ops.len();
    if n > 1 {
        out.push(ops[..n / 2].to_vec());
        out.push(ops[n / 2..].to_vec());
        if n > 8 {
            out.push(ops[..n * 3 / 4].to_vec());
        }
    }
    for i in (0..n).rev() {
        let mut c = ops.to_vec();
        c.remove(i);
        out.push(c);
    }
    for i in 0..n {
        match &ops[i] {
            BOp::Call { method, arg_seed, explicit_rid, ip_kind, ip_k } => {
                if *explicit_rid || *ip_kind != 0 || *ip_k != 0 {
                    let mut c = ops.to_vec();
                    c[i] = BOp::Call { method: method.clone(), arg_seed: *arg_seed, explicit_rid: false, ip_kind: 0, ip_k: 0 };
                    out.push(c);
                }
                for simple in ["nop", "ret", "insert_nop", "insert_ret", "capability"] {
                    let bs = bindings();
                    if method != simple {
                        if let (Some(a), Some(b)) = (bs.by_name.get(method.as_str()), bs.by_name.get(simple)) {
                            if bs.all[*a].class == bs.all[*b].class && bs.all[*a].insert == bs.all[*b].insert {
                                let mut c = ops.to_vec();
                                c[i] = BOp::Call { method: simple.to_string(), arg_seed: *arg_seed, explicit_rid: *explicit_rid, ip_kind: *ip_kind, ip_k: *ip_k };
                                out.push(c);
                            }
                        }
                    }
                }
            }
            BOp::BeginFunction { explicit_id: true, control } => {
                let mut c = ops.to_vec();
                c[i] = BOp::BeginFunction { explicit_id: false, control: *control };
                out.push(c);
            }
            BOp::BeginBlock { explicit_id: true } => {
                let mut c = ops.to_vec();
                c[i] = BOp::BeginBlock { explicit_id: false };
                out.push(c);
            }
            _ => {}
        }
    }
    out
}
