//! C14 — the parser drives the consumer in protocol order and obeys its actions.
//! A scripted consumer answers Continue/Stop/Error(tag) at every callback
//! position k (enumerated per seeded binary), over clean and faulted binaries;
//! the callback log and the returned ParseState are checked against the
//! protocol automaton, the all-Continue baseline and the reference acceptor.

use crate::acceptor::{accept, Outcome};
use crate::core::*;
use crate::faults::{self, Fault};
use crate::guard::GuardedBuf;
use crate::model::*;
use crate::producer::{gen_stream, ProdCfg};
use crate::real::{classify, loader_error_for, state_for, Act, Event, RealClass, Recorder, TagError};
use crate::rng::Rng;
use rspirv::binary::{parse_bytes, Consumer, ParseAction, ParseState, Parser};
use rspirv::dr;
use serde::{Deserialize, Serialize};

#[derive(Clone, Debug, Serialize, Deserialize)]
pub struct Trace {
    pub stream: Stream,
    pub faults: Vec<Fault>,
    /// None: enumerate every callback position x {Stop, Error}; Some: exactly this script
    pub script: Option<Vec<Act>>,
    /// extra random multi-deviation scripts
    pub extra_scripts: Vec<Vec<Act>>,
    /// also parse the binary cut at word boundaries (None: no; Some(None): every boundary; Some(Some(k)): only after word k):
    /// a cut binary is complete only if the cut falls between instructions
    #[serde(default)]
    pub cuts: Option<Option<usize>>,
}

pub struct C14;

/// Forwards to the real Loader and logs what it saw and what the loader answered.
struct LoaderWrap {
    loader: dr::Loader,
    log: Vec<Event>,
    /// position of the first non-Continue answer of the loader
    first_deviation: Option<usize>,
    calls_after_deviation: usize,
}

impl LoaderWrap {
    fn note(&mut self, a: &ParseAction) {
        if self.first_deviation.is_some() {
            self.calls_after_deviation += 1;
        } else if !matches!(a, ParseAction::Continue) {
            self.first_deviation = Some(self.log.len() - 1);
        }
    }
}

impl Consumer for LoaderWrap {
    fn initialize(&mut self) -> ParseAction {
        self.log.push(Event::Init);
        let a = self.loader.initialize();
        self.note(&a);
        a
    }
    fn finalize(&mut self) -> ParseAction {
        self.log.push(Event::Finalize);
        let a = self.loader.finalize();
        self.note(&a);
        a
    }
    fn consume_header(&mut self, h: dr::ModuleHeader) -> ParseAction {
        self.log.push(Event::Header(h.version, h.bound));
        let a = self.loader.consume_header(h);
        self.note(&a);
        a
    }
    fn consume_instruction(&mut self, inst: dr::Instruction) -> ParseAction {
        self.log.push(Event::Inst(to_model(&inst)));
        let a = self.loader.consume_instruction(inst);
        self.note(&a);
        a
    }
}

fn result_code(r: &Result<(), ParseState>) -> u32 {
    match r {
        Ok(()) => 0,
        Err(e) => match classify(e).class {
            RealClass::ConsumerStop => 1,
            RealClass::ConsumerError => 2,
            RealClass::Complete => 3,
            RealClass::Grammar(_) => 4,
        },
    }
}

fn check_script(bytes: &[u8], base_log: &[Event], base_res_code: u32, script: &[Act], step: usize, cov: &mut Cov) -> Option<Violation> {
    let mk = |c: &str, locus: String, d: String| Some(Violation::new(&format!("C14.{}", c), locus, step, d));
    let gb = GuardedBuf::new(bytes, true);
    let mut rec = Recorder::new(script.to_vec(), bytes.len() / 4 + 8);
    let res = match guarded(|| parse_bytes(gb.bytes(), &mut rec)) {
        Ok(r) => r,
        Err(pi) => return mk("panic", pi.locus(), pi.detail()),
    };
    // the word-slice entry point drives the consumer in exactly the same way
    if let Some(w) = gb.words() {
        let mut rec2 = Recorder::new(script.to_vec(), bytes.len() / 4 + 8);
        let res2 = match guarded(|| rspirv::binary::parse_words(w, &mut rec2)) {
            Ok(r) => r,
            Err(pi) => return mk("panic", format!("parse_words {}", pi.locus()), pi.detail()),
        };
        cov.hit("reached.parse_words_twin");
        if rec2.log != rec.log || result_code(&res2) != result_code(&res) {
            let k = rec.log.iter().zip(rec2.log.iter()).position(|(a, b)| a != b).unwrap_or(rec.log.len().min(rec2.log.len()));
            return mk(
                "entry-points-agree",
                format!("at={}", match rec.log.get(k) { Some(Event::Init) => "initialize", Some(Event::Header(..)) => "header", Some(Event::Inst(_)) => "instruction", Some(Event::Finalize) => "finalize", None => "end" }),
                format!("parse_words made {} callbacks and returned {:?}; parse_bytes on the same binary and script made {} and returned {:?}; first difference at callback #{}", rec2.log.len(), res2.as_ref().err().map(|e| format!("{:?}", e)), rec.log.len(), res.as_ref().err().map(|e| format!("{:?}", e)), k),
            );
        }
    }
    cov.hit("steps");
    cov.add("callbacks", rec.log.len() as u64);
    // first deviation of the script that is actually reachable
    let dev = script.iter().position(|a| *a != Act::Continue).filter(|k| *k < base_log.len());
    let pos_name = |k: usize| match base_log.get(k) {
        Some(Event::Init) => "initialize",
        Some(Event::Header(..)) => "header",
        Some(Event::Inst(_)) => "instruction",
        Some(Event::Finalize) => "finalize",
        None => "none",
    };
    match dev {
        None => {
            // nothing to obey: must behave exactly like the all-Continue baseline
            if rec.log != base_log || result_code(&res) != base_res_code {
                return mk("deterministic", "script=continue".into(), format!("same binary, all-Continue consumer: {} callbacks / result {:?} now, {} callbacks before", rec.log.len(), res, base_log.len()));
            }
        }
        Some(k) => {
            let act = script[k];
            let locus = format!("at={} action={}", pos_name(k), if act == Act::Stop { "stop" } else { "error" });
            let act_code = match act {
                Act::Stop => 1,
                Act::Error(_) => 2,
                Act::ErrorState(_) => 3,
                Act::ErrorLoader(_) => 4,
                Act::ErrorStd(_) => 5,
                Act::Continue => 0,
            };
            cov.triple(
                match base_log[k] {
                    Event::Init => 0,
                    Event::Header(..) => 1,
                    Event::Inst(_) => 2,
                    Event::Finalize => 3,
                },
                act_code,
                base_res_code,
            );
            if rec.log.len() > k + 1 {
                return mk(
                    "stop-at-once",
                    locus,
                    format!("consumer answered {:?} at callback #{} ({}) but {} further callback(s) were made; next: {:?}", act, k, pos_name(k), rec.log.len() - k - 1, rec.log[k + 1]),
                );
            }
            if rec.log[..] != base_log[..=k] {
                return mk("order", locus, format!("callbacks before the deviation differ from the all-Continue run: got {} events, expected the first {}", rec.log.len(), k + 1));
            }
            if rec.asked_after_deviation != 0 {
                return mk("stop-at-once", locus, "consumer was called again after answering stop/error".into());
            }
            match (act, &res) {
                (Act::Stop, Err(ParseState::ConsumerStopRequested)) => {}
                (Act::Error(tag), Err(ParseState::ConsumerError(e))) => match e.downcast_ref::<TagError>() {
                    Some(TagError(t)) if *t == tag => {}
                    _ => return mk("error-value", locus, format!("consumer returned error tag {} but the parse result carries {:?}", tag, e.to_string())),
                },
                (Act::ErrorState(n), Err(ParseState::ConsumerError(e))) => match e.downcast_ref::<ParseState>() {
                    Some(st) if format!("{:?}", st) == format!("{:?}", state_for(n)) => {
                        cov.hit("reached.consumer_error_is_a_parse_state");
                    }
                    _ => return mk("error-value", format!("{} type=ParseState", locus), format!("consumer returned a ParseState value ({:?}) as its error but the parse result carries {:?}", state_for(n), e.to_string())),
                },
                (Act::ErrorLoader(n), Err(ParseState::ConsumerError(e))) => match e.downcast_ref::<dr::Error>() {
                    Some(le) if format!("{:?}", le) == format!("{:?}", loader_error_for(n)) => {}
                    _ => return mk("error-value", format!("{} type=dr::Error", locus), format!("consumer returned {:?} as its error but the parse result carries {:?}", loader_error_for(n), e.to_string())),
                },
                (Act::ErrorStd(n), Err(ParseState::ConsumerError(e))) => {
                    let want = crate::real::std_error_for(n);
                    if crate::real::std_error_identity(e.as_ref()) != crate::real::std_error_identity(want.as_ref()) {
                        return mk("error-value", format!("{} type=std", locus), format!("consumer returned {:?} as its error but the parse result carries {:?}", crate::real::std_error_identity(want.as_ref()), crate::real::std_error_identity(e.as_ref())));
                    }
                    cov.hit("reached.consumer_error_is_a_std_error");
                }
                _ => {
                    return mk("action-result", locus, format!("consumer answered {:?} at callback #{} but the parse returned {:?}", act, k, res.as_ref().err().map(|e| format!("{:?}", e)).unwrap_or("Ok".into())));
                }
            }
        }
    }
    None
}

impl Property for C14 {
    type Trace = Trace;
    const ID: &'static str = "C14";

    fn runs(tier: Tier) -> u64 {
        match tier {
            Tier::Quick => 100_000,
            Tier::Thorough => 10_000_000,
        }
    }

    fn generate(rng: &mut Rng, _tier: Tier) -> Trace {
        let mut cfg = ProdCfg::parser_default(rng);
        cfg.max_insts = rng.range(0, 16) as usize;
        let mut stream = gen_stream(rng, cfg);
        if rng.chance(1, 6) {
            crate::producer::plant_ext_inst(rng, &mut stream);
        }
        let faults = if rng.chance(1, 2) {
            vec![]
        } else {
            let nf = rng.range(1, 2) as usize;
            faults::gen_faults(rng, &stream, nf, faults::ALL_FAULTS)
        };
        let n = stream.insts.len() + 4;
        let mut extra = vec![];
        for _ in 0..rng.below(3) {
            let mut sc = vec![Act::Continue; n];
            for a in sc.iter_mut() {
                if rng.chance(1, 6) {
                    *a = match rng.below(5) {
                        0 => Act::Stop,
                        1 => Act::Error(rng.u32()),
                        2 => Act::ErrorState(rng.below(5) as u8),
                        3 => Act::ErrorStd(rng.below(crate::real::STD_ERRORS as u64) as u8),
                        _ => Act::ErrorLoader(rng.below(3) as u8),
                    };
                }
            }
            extra.push(sc);
        }
        let cuts = if faults.is_empty() && stream.insts.len() <= 40 && rng.chance(1, 3) { Some(None) } else { None };
        Trace {
            stream,
            faults,
            script: None,
            extra_scripts: extra,
            cuts,
        }
    }

    fn execute(t: &Trace, cov: &mut Cov) -> RunOut {
        let (bytes, fired) = faults::apply(&t.stream, &t.faults);
        for f in &fired {
            cov.hit(f);
        }
        let mut h = AbsHash::new();
        for f in &t.faults {
            h.push(100, f.code());
        }
        let mk = |c: &str, locus: String, step: usize, d: String| Some(Violation::new(&format!("C14.{}", c), locus, step, d));
        // ---- baseline: all-Continue ----------------------------------------------------
        let gb = GuardedBuf::new(&bytes, true);
        let mut base = Recorder::passive(bytes.len() / 4 + 8);
        let base_res = match guarded(|| parse_bytes(gb.bytes(), &mut base)) {
            Ok(r) => r,
            Err(_) => {
                // a panic on this input is C04's finding; the protocol cannot be judged
                cov.hit("reached.baseline_panicked");
                return RunOut {
                    violation: None,
                    abs_hash: h.0,
                    nontrivial: false,
                };
            }
        };
        let log = base.log.clone();
        let rc = result_code(&base_res);
        h.push(rc, log.len() as u32);
        let v = accept(&bytes);
        let viol = (|| -> Option<Violation> {
            // protocol automaton over the baseline log
            if log.first() != Some(&Event::Init) {
                return mk("order", "at=initialize".into(), 0, format!("first callback is {:?}", log.first()));
            }
            let mut phase = 0; // 0 after init, 1 after header, 2 finalize seen
            for (k, e) in log.iter().enumerate().skip(1) {
                match (phase, e) {
                    (0, Event::Header(..)) => phase = 1,
                    (1, Event::Inst(_)) => {}
                    (1, Event::Finalize) => phase = 2,
                    _ => return mk("order", format!("at={}", k.min(3)), 0, format!("callback #{} is {:?} in phase {} (expected initialize, header, instruction*, finalize)", k, e, phase)),
                }
            }
            let n_inst = log.iter().filter(|e| matches!(e, Event::Inst(_))).count();
            match &base_res {
                Ok(()) => {
                    if phase != 2 {
                        return mk("finalize-on-success", "at=finalize".into(), 0, "parse returned Ok(()) but finalize was never called".into());
                    }
                }
                Err(e) => {
                    let c = classify(e);
                    if phase == 2 {
                        return mk("finalize-withheld", "at=finalize".into(), 0, format!("finalize was called although the parse ended with {:?}", e));
                    }
                    match c.class {
                        RealClass::Grammar(_) => {
                            if let Some(j) = c.index {
                                if n_inst + 1 != j {
                                    return mk("error-after-prefix", "parse-error".into(), 0, format!("parse error {} names instruction #{} but {} instruction callbacks were made", c.text, j, n_inst));
                                }
                            }
                        }
                        other => return mk("action-result", "script=continue".into(), 0, format!("all-Continue consumer but the parse returned {:?}", other)),
                    }
                }
            }
            // instruction callbacks are the stream's instructions, in order, once each
            let delivered: Vec<&MInst> = base.insts();
            for (k, d) in delivered.iter().enumerate() {
                if k < v.insts.len() && **d != v.insts[k] {
                    return mk("stream-order", format!("op={}", v.insts[k].name()), 0, format!("instruction callback #{} carried [{}], the stream's instruction #{} is [{}]", k + 1, show(d), k + 1, show(&v.insts[k])));
                }
            }
            if !matches!(v.outcome, Outcome::DontCare(_)) && delivered.len() != v.insts.len() {
                return mk("stream-order", "count".into(), 0, format!("{} instruction callbacks for {} deliverable instructions", delivered.len(), v.insts.len()));
            }
            // finalize (and Ok) only if the WHOLE binary was parsed without error: a binary with a definitely
            // malformed instruction cannot have been parsed to the end
            if let (Outcome::Reject(r), true) = (&v.outcome, base_res.is_ok()) {
                return mk(
                    "finalize-only-complete",
                    format!("class={}", r.classes[0].name()),
                    0,
                    format!("the parse returned Ok and called finalize after {} instruction callbacks although instruction #{} (bytes {}..{}) is malformed ({}): the binary was not parsed to the end", delivered.len(), r.index, r.start, r.end, r.sub),
                );
            }
            if matches!(v.outcome, Outcome::Accept) && base_res.is_err() {
                // acceptance itself is C03's business; do not judge the protocol on a disputed outcome
                cov.hit("reached.acceptance_disputed");
            }
            // ---- loader as a consumer -----------------------------------------------------
            let mut lw = LoaderWrap {
                loader: dr::Loader::new(),
                log: vec![],
                first_deviation: None,
                calls_after_deviation: 0,
            };
            let lres = match guarded(|| Parser::new(gb.bytes(), &mut lw).parse()) {
                Ok(r) => r,
                Err(pi) => return mk("panic", format!("loader {}", pi.locus()), 1, pi.detail()),
            };
            if lw.calls_after_deviation != 0 {
                return mk("stop-at-once", "consumer=loader".into(), 1, format!("the loader answered non-Continue at callback #{} and was called {} more time(s)", lw.first_deviation.unwrap_or(0), lw.calls_after_deviation));
            }
            let upto = lw.first_deviation.map(|k| k + 1).unwrap_or(log.len());
            if lw.log[..] != log[..upto.min(log.len())] {
                return mk("order", "consumer=loader".into(), 1, "callbacks seen by the loader differ from those seen by the recording consumer".into());
            }
            let loaded = match guarded(|| dr::load_bytes(gb.bytes())) {
                Ok(r) => r,
                Err(pi) => return mk("panic", format!("load_bytes {}", pi.locus()), 1, pi.detail()),
            };
            if loaded.is_ok() != lres.is_ok() {
                return mk("loader-only-complete", "consumer=loader".into(), 1, format!("load_bytes is_ok={} but driving a Loader through the parser gave {:?}", loaded.is_ok(), lres.err().map(|e| format!("{:?}", e))));
            }
            if loaded.is_ok() {
                cov.hit("reached.loader_yielded_module");
                if base_res.is_err() || lw.log.last() != Some(&Event::Finalize) || lw.log.len() != log.len() {
                    return mk(
                        "loader-only-complete",
                        "consumer=loader".into(),
                        1,
                        format!("load_bytes yielded a module although the binary was not parsed to the end (baseline result {:?}, loader saw {} of {} callbacks)", base_res.as_ref().err().map(|e| format!("{:?}", e)), lw.log.len(), log.len()),
                    );
                }
            }
            // ---- scripts --------------------------------------------------------------------
            let mut step = 2;
            match &t.script {
                Some(sc) => {
                    if let Some(v) = check_script(&bytes, &log, rc, sc, step, cov) {
                        return Some(v);
                    }
                }
                None => {
                    for k in 0..=log.len() {
                        // the sweep's standard-library error value rotates with the position and the binary's length
                        let std_n = ((k + bytes.len() / 4) % crate::real::STD_ERRORS as usize) as u8;
                        for act in [Act::Stop, Act::Error(0xC14_0000 + k as u32), if k % 2 == 0 { Act::ErrorState(k as u8) } else { Act::ErrorLoader(k as u8) }, Act::ErrorStd(std_n)] {
                            let mut sc = vec![Act::Continue; k];
                            sc.push(act);
                            step += 1;
                            if let Some(v) = check_script(&bytes, &log, rc, &sc, step, cov) {
                                return Some(v);
                            }
                        }
                    }
                    // all-Continue again: determinism of the parse itself
                    if let Some(v) = check_script(&bytes, &log, rc, &[], step + 1, cov) {
                        return Some(v);
                    }
                }
            }
            for (i, sc) in t.extra_scripts.iter().enumerate() {
                if let Some(v) = check_script(&bytes, &log, rc, sc, 10_000 + i, cov) {
                    return Some(v);
                }
            }
            // ---- the medium ends early: every word boundary (all-Continue consumer) ---------------------------
            if let Some(which) = t.cuts {
                let nwords = bytes.len() / 4;
                let ks: Vec<usize> = match which {
                    Some(k) => vec![k],
                    None => (5..nwords).collect(),
                };
                for k in ks {
                    if k >= nwords {
                        continue;
                    }
                    let cut = &bytes[..4 * k];
                    let gc = GuardedBuf::new(cut, true);
                    let mut rec = Recorder::passive(k + 8);
                    let res = match guarded(|| parse_bytes(gc.bytes(), &mut rec)) {
                        Ok(r) => r,
                        Err(_) => continue, // C04's clause
                    };
                    cov.hit("fault.cut_at_word_boundary");
                    let vc = accept(cut);
                    let delivered = rec.insts();
                    let finalized = rec.log.last() == Some(&Event::Finalize);
                    if let Outcome::Reject(r) = &vc.outcome {
                        if res.is_ok() || finalized {
                            return mk(
                                "finalize-only-complete",
                                format!("class={} cut", r.classes[0].name()),
                                20_000 + k,
                                format!("binary cut after word {}: the parse returned {:?} (finalize called: {}) after {} instruction callbacks although instruction #{} is cut off / malformed ({})", k, res.as_ref().err().map(|e| format!("{:?}", e)), finalized, delivered.len(), r.index, r.sub),
                            );
                        }
                    }
                    if !matches!(vc.outcome, Outcome::DontCare(_)) {
                        if delivered.len() != vc.insts.len() {
                            return mk("stream-order", "count cut".into(), 20_000 + k, format!("binary cut after word {}: {} instruction callbacks for {} deliverable instructions", k, delivered.len(), vc.insts.len()));
                        }
                        for (j, d) in delivered.iter().enumerate() {
                            if **d != vc.insts[j] {
                                return mk("stream-order", format!("op={} cut", vc.insts[j].name()), 20_000 + k, format!("binary cut after word {}: callback #{} carried [{}], the stream's instruction is [{}]", k, j + 1, show(d), show(&vc.insts[j])));
                            }
                        }
                    }
                    if res.is_ok() != finalized {
                        return mk("finalize-on-success", "cut".into(), 20_000 + k, format!("binary cut after word {}: result ok={} but finalize called={}", k, res.is_ok(), finalized));
                    }
                }
            }
            None
        })();
        RunOut {
            violation: viol,
            abs_hash: h.0,
            nontrivial: log.len() >= 3 || !fired.is_empty(),
        }
    }

    fn shrink(t: &Trace) -> Vec<Trace> {
        let mut out = vec![];
        if t.cuts == Some(None) {
            // pin the sweep to one cut (tried in order)
            let n = t.stream.encode().0.len();
            for k in 5..n {
                let mut c = t.clone();
                c.cuts = Some(Some(k));
                c.script = Some(vec![]);
                c.extra_scripts.clear();
                out.push(c);
            }
            let mut c = t.clone();
            c.cuts = None;
            out.push(c);
            return out;
        }
        if !t.extra_scripts.is_empty() {
            let mut c = t.clone();
            c.extra_scripts.clear();
            out.push(c);
        }
        if t.script.is_none() {
            let n = t.stream.insts.len() + 4;
            for k in 0..n {
                for act in [Act::Stop, Act::Error(7)] {
                    let mut sc = vec![Act::Continue; k];
                    sc.push(act);
                    let mut c = t.clone();
                    c.script = Some(sc);
                    c.extra_scripts.clear();
                    out.push(c);
                }
            }
            let mut c = t.clone();
            c.script = Some(vec![]);
            out.push(c);
        }
        for fl in faults::shrink_faults(&t.faults) {
            let mut c = t.clone();
            c.faults = fl;
            out.push(c);
        }
        let n = t.stream.insts.len();
        for j in shrink_indices(n) {
            let mut c = t.clone();
            c.stream.insts.remove(j);
            c.faults = faults::reindex_after_remove(&t.faults, j);
            if let Some(sc) = &mut c.script {
                // keep the deviation on the same callback kind where possible
                if sc.len() > j + 3 {
                    sc.remove(j + 2);
                }
            }
            out.push(c);
        }
        out
    }

    fn meta() -> Meta {
        Meta {
            level: "fault_enumeration",
            rule: "each run is a seeded binary (clean, or with 1-2 storage faults so that parse errors occur at known instruction numbers); the all-Continue run is checked against the protocol automaton initialize header instruction* finalize? and the reference acceptor, then every callback position k in {initialize, header, each instruction, finalize, one past the end} x {Stop, Error(unique tag)} is enumerated, plus 0-2 random multi-deviation scripts and the real Loader wrapped in a logging consumer; abstract trace = (fault kinds, result class, number of callbacks); non-trivial = >= 3 callbacks or a fired fault",
            lanes: "every script also through parse_words (logs and results must agree); consumer errors of type ParseState / dr::Error; ext-inst hot spot; MAGIC fault value; clause finalize-only-complete against the reference acceptor; twelve standard-library error values (io::Error of kind Interrupted / WouldBlock / UnexpectedEof / Other / TimedOut / BrokenPipe / raw EINTR, fmt::Error, Utf8Error, ParseIntError, boxed &str / String) at every callback position; header dictionaries (generator tool ids, version 0.99); surplus payload on operand-less instructions (multi-word OpNop); cut sweep: one clean binary in three is also parsed cut at every word boundary; the library's own DecodeError among the consumer error values; adjacent identical instructions; registered source-extension names",
            triple_measure: "(callback kind at the deviation, action, outcome class of the undisturbed parse)",
            item_measure: "n/a",
            assumptions: &[
                "a binary on which the all-Continue parse panics is C04's finding and is skipped here",
                "whether a binary is accepted is C03's question; C14 only relates callbacks to the returned result",
            ],
            real_components: &["binary::Parser::parse", "binary::Consumer seam", "dr::Loader as consumer", "dr::load_bytes"],
            simulated_components: &["scripted consumer (continue/stop/error at position k)", "producer", "byte medium + fault injector", "reference acceptor"],
            fault_kinds: faults::FAULT_KINDS,
        }
    }
}
