//! C10 — context-dependent literal widths follow the types declared earlier in
//! the SAME parse.  Histories of int/float declarations (supported and
//! unsupported widths), value definitions carrying types through result types,
//! and literal consumers (OpConstant / OpSpecConstant / OpSwitch); parsed alone,
//! after a conflicting parse, nested inside another parse's callback
//! (re-entrancy), with a reused consumer; literal truncation faults.

use crate::acceptor::{accept, Outcome, Width};
use crate::core::*;
use crate::faults::{self, Fault};
use crate::guard::GuardedBuf;
use crate::model::*;
use crate::producer::{Gen, ProdCfg};
use crate::props::c03;
use crate::real::{Event, Recorder};
use crate::rng::Rng;
use crate::snapshot::{snap, Cat};
use rspirv::binary::{parse_bytes, Assemble, Consumer, ParseAction, ParseState};
use rspirv::dr;
use serde::{Deserialize, Serialize};

#[derive(Clone, Debug, Serialize, Deserialize, PartialEq)]
pub enum Schedule {
    Alone,
    /// another binary declaring the same ids with other widths is parsed first
    AfterOther,
    /// the history is parsed inside the k-th instruction callback of a parse of the other binary
    NestedInOther(usize),
    /// the other binary is parsed inside the k-th instruction callback of the history's parse
    OtherNestedInMain(usize),
    /// one consumer object is reused for both parses
    ReusedConsumer,
}

#[derive(Clone, Debug, Serialize, Deserialize)]
pub struct Trace {
    pub main: Stream,
    pub other: Stream,
    pub faults: Vec<Fault>,
    pub schedule: Schedule,
}

pub struct C10;

const WEIRD_WIDTHS: &[u32] = &[0, 1, 7, 24, 33, 48, 63, 65, 128, 0x8000_0000];

/// an unsupported width: a plain odd one, or (round 9) a **near-miss width** - a supported width with one higher bit
/// set or shifted by a byte or two, which aliases the supported width under truncation / masking of the stored width
fn weird_width(rng: &mut crate::rng::Rng) -> u32 {
    if rng.chance(1, 2) {
        *rng.pick(WEIRD_WIDTHS)
    } else {
        crate::producer::near_miss_width(rng)
    }
}

/// every opcode that defines a typed value (result type + result id, no context-dependent literal of its own)
fn value_defining_opcodes() -> &'static Vec<u16> {
    static V: std::sync::OnceLock<Vec<u16>> = std::sync::OnceLock::new();
    V.get_or_init(|| {
        let s = snap();
        s.insts
            .iter()
            .filter(|g| {
                g.operands.iter().any(|(k, _)| s.cat(*k) == Cat::IdResultType)
                    && g.operands.iter().any(|(k, _)| s.cat(*k) == Cat::IdResult)
                    && !g.operands.iter().any(|(k, _)| matches!(s.cat(*k), Cat::LitCtx | Cat::LitSpecOp | Cat::PairLitId))
            })
            .map(|g| g.opcode)
            .collect()
    })
}

/// instructions that are none of the three kinds the statement names ("decided solely by the type declarations"):
/// mode-setting and structural ones, which a parser might be tempted to key behaviour on
const BYSTANDERS: &[&str] = &[
    "Capability", "Capability", "Extension", "ExtInstImport", "MemoryModel", "EntryPoint", "ExecutionMode", "Source", "SourceExtension", "Name",
    "Decorate", "Decorate", "Decorate", "MemberDecorate", "Function", "Label", "FunctionEnd", "Nop", "Line", "NoLine", "Return", "Branch", "TypeVoid", "TypeBool", "TypeVector", "TypePointer",
];

fn gen_history(rng: &mut Rng, id_base: u32, conflicting_with: Option<&Stream>) -> Stream {
    let s = snap();
    let mut cfg = ProdCfg::parser_default(rng);
    cfg.max_variadic = 4;
    let mut g = Gen::new(rng, cfg);
    g.next_id = id_base;
    let mut insts: Vec<MInst> = vec![];
    let n = g.rng.range(3, 16);
    let mut type_ids: Vec<u32> = vec![];
    let mut value_ids: Vec<u32> = vec![];
    let mut forward: Vec<(u32, bool, u32)> = vec![]; // declared later
    // when building the conflicting "other" stream, reuse the main stream's ids with different widths
    let mut reuse: Vec<u32> = conflicting_with.map(|m| m.insts.iter().filter_map(|i| i.rid).collect()).unwrap_or_default();
    // real modules carry their annotations in front: a few decorations / names first (their targets are re-aimed at ids
    // of this history, defined later, by the pass at the end)
    if g.rng.chance(1, 3) {
        for _ in 0..g.rng.range(1, 4) {
            let op = s.op(*g.rng.pick(&["Decorate", "Decorate", "Decorate", "MemberDecorate", "Name", "DecorateId"]));
            let i = g.inst(op);
            insts.push(i);
        }
    }
    let bystanders = g.rng.chance(1, 2);
    // ids that are defined but carry no int/float type (other types, labels, imports, ...): "unknown" to the rule
    let mut other_ids: Vec<u32> = vec![];
    // an id nothing defines that differs from a typed id in exactly one bit (aliases it under truncation / tagging)
    fn near_miss(g: &mut Gen, typed: &[u32]) -> Option<u32> {
        if typed.is_empty() {
            return None;
        }
        let x = *g.rng.pick(typed);
        let k = *g.rng.pick(&[31u32, 31, 30, 24, 16, 16, 15, 8, 7]);
        let cand = x ^ (1 << k);
        if g.ids.contains(&cand) || cand >= 0x3fff_ff00 && cand <= 0x4000_00ff {
            None
        } else {
            Some(cand)
        }
    }
    for _ in 0..n {
        if bystanders && g.rng.chance(1, 5) {
            // an instruction of another kind in between (any opcode of the grammar, biased to mode-setting ones)
            let op = if g.rng.chance(2, 3) { s.op(*g.rng.pick(BYSTANDERS)) } else { s.insts[g.rng.below(s.insts.len() as u64) as usize].opcode };
            let i = g.inst(op);
            if let Some(rid) = i.rid {
                if i.rtype.is_some() {
                    value_ids.push(rid);
                } else if !i.is("TypeInt") && !i.is("TypeFloat") {
                    other_ids.push(rid);
                }
            }
            insts.push(i);
        }
        match g.rng.below(10) {
            0..=2 => {
                // type declaration
                let float = g.rng.chance(1, 3);
                let width = if g.rng.chance(1, 4) {
                    weird_width(&mut g.rng)
                } else if float {
                    *g.rng.pick(&[16u32, 32, 64])
                } else {
                    *g.rng.pick(&[8u32, 16, 32, 64])
                };
                if let Some(id) = reuse.pop() {
                    // same id, (probably) different width: poison for cross-parse leakage
                    let mut ops = vec![MOp::W(s.k_lit32, width)];
                    if !float {
                        ops.push(MOp::W(s.k_lit32, 0));
                    } else if g.rng.chance(1, 3) {
                        let k = s.kind("FPEncoding");
                        let n = *g.rng.pick(&s.enums[&k].numbers);
                        ops.push(MOp::W(k, n));
                    }
                    let i = MInst {
                        opcode: if float { s.op("TypeFloat") } else { s.op("TypeInt") },
                        rtype: None,
                        rid: Some(id),
                        ops,
                    };
                    g.note(&i);
                    type_ids.push(id);
                    insts.push(i);
                } else {
                    let i = g.type_decl(float, width);
                    type_ids.push(i.rid.unwrap());
                    insts.push(i);
                }
            }
            3..=4 if g.rng.chance(1, 2) => {
                // value definition by ANY value-defining opcode of the grammar; id operands come from the ids of the
                // history (types and typed values), so "operands that happen to be typed" conjunctions occur
                let op = *g.rng.pick(value_defining_opcodes());
                // half of the time the id operands come from the ids typed two words / unsupported only (several operands
                // "happen" to share such a type), and the result type is sometimes an id nothing defines
                let narrow: Vec<u32> = type_ids.iter().chain(value_ids.iter()).cloned().filter(|id| g.tctx.width_of(*id) != Width::One).collect();
                let saved = if !narrow.is_empty() && g.rng.chance(1, 2) { Some(std::mem::replace(&mut g.ids, narrow)) } else { None };
                let mut i = g.inst(op);
                if let Some(ids) = saved {
                    g.ids = ids;
                }
                if g.rng.chance(1, 4) {
                    i.rtype = Some(g.next_id + 90 + g.rng.below(4) as u32);
                    if let Some(r) = i.rid {
                        // (the generator's own type context follows the instruction as it is emitted)
                        g.tctx.types.remove(&r);
                    }
                }
                let rid = i.rid;
                insts.push(i);
                if let Some(rid) = rid {
                    value_ids.push(rid);
                    if g.rng.chance(1, 3) {
                        // consumed at once: a switch on the value just defined (one-word cases: nothing types it for the
                        // reference unless its result type does)
                        let mut ops = vec![MOp::W(s.k_idref, rid), MOp::W(s.k_idref, g.some_id())];
                        match g.tctx.width_of(rid) {
                            Width::Two => ops.push(MOp::L64(((g.rng.word() as u64) << 32) | g.rng.word() as u64)),
                            _ => ops.push(MOp::W(s.k_lit32, g.rng.word())),
                        }
                        ops.push(MOp::W(s.k_idref, g.some_id()));
                        insts.push(MInst { opcode: s.op("Switch"), rtype: None, rid: None, ops });
                    }
                }
            }
            3..=4 => {
                // value definition carrying a type forward through its result type
                let src: Vec<u32> = type_ids.iter().chain(value_ids.iter()).cloned().collect();
                let rt = if !src.is_empty() && g.rng.chance(7, 8) { *g.rng.pick(&src) } else { g.next_id + 50 };
                let rid = g.fresh();
                let name = *g.rng.pick(&["Undef", "FunctionParameter", "Load", "IAdd", "CopyObject"]);
                let ops = match name {
                    "Load" | "CopyObject" => vec![MOp::W(s.k_idref, g.some_id())],
                    "IAdd" => vec![MOp::W(s.k_idref, g.some_id()), MOp::W(s.k_idref, g.some_id())],
                    _ => vec![],
                };
                let i = MInst {
                    opcode: s.op(name),
                    rtype: Some(rt),
                    rid: Some(rid),
                    ops,
                };
                g.note(&i);
                value_ids.push(rid);
                insts.push(i);
            }
            5..=7 => {
                // OpConstant / OpSpecConstant on a declared, undeclared or forward-declared type
                let typed_now: Vec<u32> = type_ids.iter().chain(value_ids.iter()).cloned().collect();
                let rt = match g.rng.below(10) {
                    8 if !other_ids.is_empty() => *g.rng.pick(&other_ids),
                    9 => near_miss(&mut g, &typed_now).unwrap_or(g.next_id + 61),
                    0 => g.next_id + 60 + g.rng.below(5) as u32,
                    1 => {
                        // forward-declared: the declaration comes later in the stream
                        let id = g.fresh();
                        forward.push((id, g.rng.chance(1, 3), *g.rng.pick(&[8u32, 16, 32, 64, 64, 64])));
                        id
                    }
                    _ if !type_ids.is_empty() => *g.rng.pick(&type_ids),
                    _ => g.next_id + 70,
                };
                let rid = g.fresh();
                let mut ops = vec![];
                match g.tctx.width_of(rt) {
                    Width::Two => ops.push(MOp::L64(((g.rng.word() as u64) << 32) | g.rng.word() as u64)),
                    _ => ops.push(MOp::W(s.k_lit32, g.rng.word())),
                }
                let i = MInst {
                    opcode: if g.rng.chance(1, 2) { s.op("Constant") } else { s.op("SpecConstant") },
                    rtype: Some(rt),
                    rid: Some(rid),
                    ops,
                };
                g.note(&i);
                value_ids.push(rid);
                insts.push(i);
            }
            _ => {
                // OpSwitch: selector typed through a chain of definitions
                let typed_now: Vec<u32> = type_ids.iter().chain(value_ids.iter()).cloned().collect();
                let sel = if !value_ids.is_empty() && g.rng.chance(4, 6) {
                    *g.rng.pick(&value_ids)
                } else {
                    match g.rng.below(3) {
                        0 if !other_ids.is_empty() => *g.rng.pick(&other_ids),
                        1 => near_miss(&mut g, &typed_now).unwrap_or(g.next_id + 81),
                        _ => g.next_id + 80,
                    }
                };
                let mut ops = vec![MOp::W(s.k_idref, sel), MOp::W(s.k_idref, g.some_id())];
                for _ in 0..g.rng.below(5) {
                    match g.tctx.width_of(sel) {
                        Width::Two => ops.push(MOp::L64(((g.rng.word() as u64) << 32) | g.rng.word() as u64)),
                        _ => ops.push(MOp::W(s.k_lit32, g.rng.word())),
                    }
                    ops.push(MOp::W(s.k_idref, g.some_id()));
                }
                let i = MInst {
                    opcode: s.op("Switch"),
                    rtype: None,
                    rid: None,
                    ops,
                };
                insts.push(i);
            }
        }
        if !forward.is_empty() && g.rng.chance(1, 3) {
            let (id, float, width) = forward.remove(0);
            let mut ops = vec![MOp::W(s.k_lit32, width)];
            if !float {
                ops.push(MOp::W(s.k_lit32, 1));
            } else if g.rng.chance(1, 3) {
                let k = s.kind("FPEncoding");
                let n = *g.rng.pick(&s.enums[&k].numbers);
                ops.push(MOp::W(k, n));
            }
            let i = MInst {
                opcode: if float { s.op("TypeFloat") } else { s.op("TypeInt") },
                rtype: None,
                rid: Some(id),
                ops,
            };
            g.note(&i);
            type_ids.push(id);
            insts.push(i);
        }
    }
    // annotations precede what they annotate: half of the decoration / name bystanders aim at an id of this history
    // (often one that is defined later)
    let rids: Vec<u32> = insts.iter().filter_map(|i| i.rid).collect();
    if !rids.is_empty() {
        for i in insts.iter_mut() {
            if matches!(i.name().as_str(), "Decorate" | "DecorateId" | "DecorateString" | "MemberDecorate" | "Name" | "MemberName") && g.rng.chance(1, 2) {
                if let Some(MOp::W(k, v)) = i.ops.get_mut(0) {
                    if *k == s.k_idref {
                        *v = *g.rng.pick(&rids);
                    }
                }
            }
        }
    }
    let bound = g.next_id + 100;
    Stream {
        header: MHeader {
            version: 0x0001_0300,
            generator: 0,
            bound,
            schema: 0,
        },
        insts,
    }
}

/// consumer that runs a complete inner parse inside its k-th instruction callback
struct Nest<'a> {
    rec: Recorder,
    at: usize,
    inner_bytes: &'a [u8],
    inner: Option<(Vec<Event>, Result<(), String>)>,
    seen: usize,
}

impl<'a> Consumer for Nest<'a> {
    fn initialize(&mut self) -> ParseAction {
        self.rec.initialize()
    }
    fn finalize(&mut self) -> ParseAction {
        if self.inner.is_none() {
            self.run_inner();
        }
        self.rec.finalize()
    }
    fn consume_header(&mut self, h: dr::ModuleHeader) -> ParseAction {
        self.rec.consume_header(h)
    }
    fn consume_instruction(&mut self, inst: dr::Instruction) -> ParseAction {
        if self.seen == self.at && self.inner.is_none() {
            self.run_inner();
        }
        self.seen += 1;
        self.rec.consume_instruction(inst)
    }
}

impl<'a> Nest<'a> {
    fn run_inner(&mut self) {
        let mut r = Recorder::passive(self.inner_bytes.len() / 4 + 8);
        let res = parse_bytes(self.inner_bytes, &mut r);
        self.inner = Some((r.log, res.map_err(|e| format!("{:?}", e))));
    }
}

fn res_string(r: Result<(), ParseState>) -> Result<(), String> {
    r.map_err(|e| format!("{:?}", e))
}

/// collects the real instructions to check the assembler's word counts
struct Collect(Vec<dr::Instruction>);
impl Consumer for Collect {
    fn initialize(&mut self) -> ParseAction {
        ParseAction::Continue
    }
    fn finalize(&mut self) -> ParseAction {
        ParseAction::Continue
    }
    fn consume_header(&mut self, _h: dr::ModuleHeader) -> ParseAction {
        ParseAction::Continue
    }
    fn consume_instruction(&mut self, inst: dr::Instruction) -> ParseAction {
        self.0.push(inst);
        ParseAction::Continue
    }
}

impl Property for C10 {
    type Trace = Trace;
    const ID: &'static str = "C10";

    fn runs(tier: Tier) -> u64 {
        match tier {
            Tier::Quick => 500_000,
            Tier::Thorough => 50_000_000,
        }
    }

    fn generate(rng: &mut Rng, _tier: Tier) -> Trace {
        let mut main = gen_history(rng, 1, None);
        if rng.chance(1, 500) {
            // scale: hundreds of distinct types / tens of thousands of tracked ids in front of a 64-bit literal
            // (only the two type-context kinds of plant_giant)
            let mut tmp = Stream { header: main.header.clone(), insts: vec![] };
            loop {
                tmp.insts.clear();
                tmp.header = main.header.clone();
                crate::producer::plant_giant(rng, &mut tmp);
                if tmp.insts.len() > 100 {
                    break;
                }
            }
            // ids of the giant part start above the history's own ids
            main.header.bound = tmp.header.bound;
            main.insts.extend(tmp.insts);
        }
        if rng.chance(1, 250) {
            // dense ids across power-of-two boundaries, each boundary id typed 64-bit and consumed
            let mut tmp = Stream { header: main.header.clone(), insts: vec![] };
            crate::producer::plant_dense_ids(rng, &mut tmp);
            main.header.bound = tmp.header.bound;
            main.insts.extend(tmp.insts);
        }
        if rng.chance(1, 250) {
            // thousands of type ids scattered over the 32-bit space, each consumed (collisions in a lossy id -> type map)
            let mut tmp = Stream { header: main.header.clone(), insts: vec![] };
            crate::producer::plant_sparse_ids(rng, &mut tmp);
            main.insts.extend(tmp.insts);
        }
        // the id bound is a header word the rule must not look at: usually plausible, sometimes 0, 1, smaller than ids in use
        if rng.chance(1, 2) {
            let rids: Vec<u32> = main.insts.iter().filter_map(|i| i.rid).collect();
            main.header.bound = match rng.below(5) {
                0 => 0,
                1 => 1,
                2 => (main.header.bound / 2).max(2),
                3 if !rids.is_empty() => *rng.pick(&rids),
                _ => 0xFFFF_FFFF,
            };
        }
        let other = gen_history(rng, 1, Some(&main));
        let faults = if rng.chance(1, 4) {
            // literal truncation: drop an operand word / cut inside the stream
            let enabled = (1 << 8) | (1 << 15) | (1 << 5);
            faults::gen_faults(rng, &main, 1, enabled)
        } else {
            vec![]
        };
        let k = rng.below(8) as usize;
        let schedule = match rng.below(5) {
            0 => Schedule::Alone,
            1 => Schedule::AfterOther,
            2 => Schedule::NestedInOther(k),
            3 => Schedule::OtherNestedInMain(k),
            _ => Schedule::ReusedConsumer,
        };
        Trace { main, other, faults, schedule }
    }

    fn execute(t: &Trace, cov: &mut Cov) -> RunOut {
        let s = snap();
        let (bytes, fired) = faults::apply(&t.main, &t.faults);
        for f in &fired {
            cov.hit(f);
        }
        let (obytes, _) = t.other.encode();
        let obytes = words_to_bytes(&obytes);
        let mut h = AbsHash::new();
        for f in &t.faults {
            h.push(100, f.code());
        }
        // (a) alone, judged against the reference type context (shares the judge of C03)
        let (viol_a, ocode, _) = c03::judge(Self::ID, &bytes, false, 0, cov);
        h.push(ocode, 0);
        let v = accept(&bytes);
        // coverage: (width class, consumer opcode, schedule)
        let sched_code = match t.schedule {
            Schedule::Alone => 0,
            Schedule::AfterOther => 1,
            Schedule::NestedInOther(_) => 2,
            Schedule::OtherNestedInMain(_) => 3,
            Schedule::ReusedConsumer => 4,
        };
        for i in &v.insts {
            if i.is("Constant") || i.is("SpecConstant") || i.is("Switch") {
                let wcode = if i.ops.iter().any(|o| matches!(o, MOp::L64(_))) { 2 } else { 1 };
                cov.triple(wcode, i.opcode as u32, sched_code);
                h.push(wcode, i.opcode as u32);
                if wcode == 2 {
                    cov.hit("reached.literal_64bit_delivered");
                }
                if i.is("Switch") && i.ops.len() > 2 {
                    cov.hit("reached.switch_with_cases");
                }
            }
        }
        if let Outcome::Reject(r) = &v.outcome {
            if r.sub == "literal of unsupported width" {
                cov.hit("reached.unsupported_width");
                cov.triple(3, r.opcode as u32, sched_code);
            }
        }
        let mut viol = viol_a;
        if viol.is_none() {
            viol = (|| -> Option<Violation> {
                let mk = |c: &str, locus: String, step: usize, d: String| Some(Violation::new(&format!("C10.{}", c), locus, step, d));
                let gb = GuardedBuf::new(&bytes, true);
                let go = GuardedBuf::new(&obytes, true);
                // baseline
                let mut base = Recorder::passive(bytes.len() / 4 + 8);
                let base_res = match guarded(|| parse_bytes(gb.bytes(), &mut base)) {
                    Ok(r) => res_string(r),
                    Err(_) => return None, // already reported (or DontCare) by the judge above
                };
                let differs = |log: &Vec<Event>, res: &Result<(), String>| -> Option<String> {
                    if *res != base_res {
                        return Some(format!("result {:?} vs {:?} when parsed alone", res, base_res));
                    }
                    for (k, (a, b)) in log.iter().zip(base.log.iter()).enumerate() {
                        if a != b {
                            return Some(format!("callback #{} is {:?} but {:?} when parsed alone", k, a, b));
                        }
                    }
                    if log.len() != base.log.len() {
                        return Some(format!("{} callbacks vs {} when parsed alone", log.len(), base.log.len()));
                    }
                    None
                };
                match &t.schedule {
                    Schedule::Alone => {}
                    Schedule::AfterOther => {
                        let mut r0 = Recorder::passive(obytes.len() / 4 + 8);
                        let _ = guarded(|| parse_bytes(go.bytes(), &mut r0));
                        let mut r1 = Recorder::passive(bytes.len() / 4 + 8);
                        let res = match guarded(|| parse_bytes(gb.bytes(), &mut r1)) {
                            Ok(r) => res_string(r),
                            Err(pi) => return mk("panic", pi.locus(), 1, pi.detail()),
                        };
                        cov.hit("reached.parse_after_conflicting_parse");
                        if let Some(d) = differs(&r1.log, &res) {
                            return mk("independent-of-earlier-parses", "schedule=after-other".into(), 1, d);
                        }
                    }
                    Schedule::NestedInOther(k) => {
                        let mut n = Nest {
                            rec: Recorder::passive(obytes.len() / 4 + 8),
                            at: *k,
                            inner_bytes: gb.bytes(),
                            inner: None,
                            seen: 0,
                        };
                        if let Err(pi) = guarded(|| parse_bytes(go.bytes(), &mut n)) {
                            return mk("panic", pi.locus(), 2, pi.detail());
                        }
                        if let Some((log, res)) = &n.inner {
                            cov.hit("reached.nested_parse_inside_callback");
                            if let Some(d) = differs(log, res) {
                                return mk("independent-of-earlier-parses", "schedule=nested-in-other".into(), 2, d);
                            }
                        }
                    }
                    Schedule::OtherNestedInMain(k) => {
                        let mut n = Nest {
                            rec: Recorder::passive(bytes.len() / 4 + 8),
                            at: *k,
                            inner_bytes: go.bytes(),
                            inner: None,
                            seen: 0,
                        };
                        let res = match guarded(|| parse_bytes(gb.bytes(), &mut n)) {
                            Ok(r) => res_string(r),
                            Err(pi) => return mk("panic", pi.locus(), 3, pi.detail()),
                        };
                        if n.inner.is_some() {
                            cov.hit("reached.other_parse_nested_in_main");
                        }
                        if let Some(d) = differs(&n.rec.log, &res) {
                            return mk("independent-of-earlier-parses", "schedule=other-nested-in-main".into(), 3, d);
                        }
                    }
                    Schedule::ReusedConsumer => {
                        let mut r = Recorder::passive(obytes.len() / 4 + bytes.len() / 4 + 16);
                        let _ = guarded(|| parse_bytes(go.bytes(), &mut r));
                        r.log.clear();
                        let res = match guarded(|| parse_bytes(gb.bytes(), &mut r)) {
                            Ok(x) => res_string(x),
                            Err(pi) => return mk("panic", pi.locus(), 4, pi.detail()),
                        };
                        cov.hit("reached.reused_consumer");
                        if let Some(d) = differs(&r.log, &res) {
                            return mk("independent-of-earlier-parses", "schedule=reused-consumer".into(), 4, d);
                        }
                    }
                }
                // the assembler re-emits the same number of words for each literal consumer
                let mut col = Collect(vec![]);
                if guarded(|| parse_bytes(gb.bytes(), &mut col)).is_err() {
                    return None;
                }
                for (k, inst) in col.0.iter().enumerate() {
                    if k >= v.insts.len() {
                        break;
                    }
                    let mi = &v.insts[k];
                    if !(mi.is("Constant") || mi.is("SpecConstant") || mi.is("Switch")) {
                        continue;
                    }
                    let asm = match guarded(|| inst.assemble()) {
                        Ok(a) => a,
                        Err(pi) => return mk("panic", pi.locus(), 5, pi.detail()),
                    };
                    let start = v.starts[k] / 4;
                    let wc = inst_words(mi);
                    let orig: Vec<u32> = (start..start + wc).map(|w| u32::from_le_bytes(bytes[w * 4..w * 4 + 4].try_into().unwrap())).collect();
                    if asm != orig {
                        return mk(
                            "assembler-same-width",
                            format!("op={}", mi.name()),
                            5,
                            format!("instruction #{} [{}] was read from {} words {:x?} but assembles to {} words {:x?}", k + 1, show(mi), orig.len(), orig, asm.len(), asm),
                        );
                    }
                    cov.hit("reached.assembler_width_checked");
                }
                let _ = s;
                None
            })();
        }
        RunOut {
            violation: viol,
            abs_hash: {
                h.push(sched_code, 7);
                h.0
            },
            nontrivial: v.insts.iter().filter(|i| i.is("Constant") || i.is("SpecConstant") || i.is("Switch")).count() >= 1 && t.main.insts.len() >= 3,
        }
    }

    fn shrink(t: &Trace) -> Vec<Trace> {
        let mut out = vec![];
        for fl in faults::shrink_faults(&t.faults) {
            let mut c = t.clone();
            c.faults = fl;
            out.push(c);
        }
        if t.schedule != Schedule::Alone {
            let mut c = t.clone();
            c.schedule = Schedule::Alone;
            out.push(c);
            for j in shrink_indices(t.other.insts.len()) {
                let mut c = t.clone();
                c.other.insts.remove(j);
                out.push(c);
            }
            match t.schedule {
                Schedule::NestedInOther(k) | Schedule::OtherNestedInMain(k) if k > 0 => {
                    let mut c = t.clone();
                    c.schedule = if matches!(t.schedule, Schedule::NestedInOther(_)) { Schedule::NestedInOther(k - 1) } else { Schedule::OtherNestedInMain(k - 1) };
                    out.push(c);
                }
                _ => {}
            }
        }
        for (a, b) in shrink_chunks(t.main.insts.len()) {
            let mut c = t.clone();
            c.main.insts.drain(a..b);
            c.faults.clear();
            out.push(c);
        }
        for j in shrink_indices(t.main.insts.len()) {
            let mut c = t.clone();
            c.main.insts.remove(j);
            c.faults = faults::reindex_after_remove(&t.faults, j);
            out.push(c);
        }
        // drop switch cases
        for j in 0..t.main.insts.len() {
            if t.main.insts[j].is("Switch") && t.main.insts[j].ops.len() > 2 {
                let mut c = t.clone();
                let n = c.main.insts[j].ops.len();
                c.main.insts[j].ops.truncate(n - 2);
                out.push(c);
            }
        }
        out
    }

    fn meta() -> Meta {
        Meta {
            level: "exploration",
            rule: "each run is a seeded history of 3-16 int/float type declarations (widths 8/16/32/64 and 0,1,7,24,33,48,63,65,128,2^31), value definitions carrying types through result types, and OpConstant/OpSpecConstant/OpSwitch consumers on declared, undeclared and forward-declared ids (ids unique), optionally with one literal-truncation fault; it is parsed alone (judged against the reference type context) and under one of four schedules involving a second binary that declares the same ids with other widths (after it, nested inside its k-th callback, it nested inside the history's k-th callback, one consumer reused); abstract trace = (faults, outcome class, per consumer (width class, opcode), schedule); non-trivial = >= 3 instructions and >= 1 literal consumer delivered",
            lanes: "float declarations with the optional FPEncoding operand; dense ids 1..300/4200/66000 all typed 64-bit with a consumer at every 2^k-1, 2^k, 2^k+1 (1/250 runs); value definitions by any of the value-defining opcodes; bystander instructions (capabilities, extensions, functions, labels, ...) in between; rare giant histories (all 363 distinct int/float types with the 64-bit float last; 65k+ tracked ids before a 64-bit type, value, literals and switch); ids defined by other instructions and near-miss ids (one bit away from a typed id) as result types / selectors; header bound 0 / 1 / too small / 2^32-1 in half of the histories; annotations in front aimed at ids defined later; value definitions whose operands all carry two-word types, consumed by a switch at once; sparse-id lane (thousands of type ids scattered over the 32-bit space, each consumed by a constant)",
            triple_measure: "(literal width class 1/2/unsupported, consumer opcode, schedule)",
            item_measure: "opcodes delivered and matched",
            assumptions: &[
                "ids are defined once in the history under test (the property's quantifier); the conflicting declarations live in the OTHER binary",
                "unsupported width with no literal word left is reported as a missing operand (has-more is checked first), as the reference acceptor does",
            ],
            real_components: &["binary::Parser", "binary::tracker::TypeTracker", "binary::Decoder", "Assemble for dr::Instruction"],
            simulated_components: &["history generator", "reference type context", "re-entrant consumer (nested parse inside a callback)", "byte medium with literal-truncation faults"],
            fault_kinds: &["operand_drop", "trunc", "wc"],
        }
    }
}
