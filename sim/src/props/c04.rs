//! C04 — parsing, loading, assembling and disassembling never panic, overflow,
//! index out of bounds or read outside the buffer, on any input; low-level
//! decoder requests with any limit likewise.  Multi-fault storage corruption of
//! producer streams plus raw random bytes, under guard pages, overflow checks
//! and debug assertions; worker-process death (signal/hang) is a violation.

use crate::core::*;
use crate::faults::{self, Fault};
use crate::guard::{hexbytes, GuardedBuf};
use crate::kinds::{decode_typed, TYPED_KINDS};
use crate::model::*;
use crate::producer::{gen_stream, ProdCfg};
use crate::props::c11::Req;
use crate::real::Recorder;
use crate::rng::Rng;
use crate::snapshot::snap;
use rspirv::binary::{parse_bytes, parse_words, Assemble, Decoder, Disassemble};
use rspirv::dr;
use serde::{Deserialize, Serialize};

#[derive(Clone, Debug, Serialize, Deserialize)]
pub enum Source {
    Stream(Stream),
    Raw(#[serde(with = "hexbytes")] Vec<u8>),
}

#[derive(Clone, Debug, Serialize, Deserialize)]
pub struct Trace {
    pub source: Source,
    pub faults: Vec<Fault>,
    pub sweep_trunc: bool,
    pub flush_end: bool,
    pub reqs: Vec<Req>,
    /// consumer reuse: one Loader object consumes a first parse cut at this byte and then a second
    /// parse of header + the stream's instructions from this index on
    #[serde(default)]
    pub reuse: Option<(usize, usize)>,
}

pub struct C04;

fn stage_violation(stage: &str, pi: &PanicInfo, step: usize) -> Violation {
    Violation::new("C04.panic", format!("stage={} {}", stage, pi.locus()), step, pi.detail())
}

/// All entry points on one buffer. Returns (violation, accepted?)
pub fn hammer(bytes: &[u8], flush_end: bool, step: usize, cov: &mut Cov) -> (Option<Violation>, bool) {
    let gb = GuardedBuf::new(bytes, flush_end);
    cov.hit("steps");
    cov.add("bytes_parsed", bytes.len() as u64);
    // 1. parse_bytes with a recording consumer; termination: callbacks <= words + 3
    let mut rec = Recorder::passive(bytes.len() / 4 + 4);
    match guarded(|| parse_bytes(gb.bytes(), &mut rec)) {
        Err(pi) => return (Some(stage_violation("parse_bytes", &pi, step)), false),
        Ok(_) => {}
    }
    cov.add("callbacks", rec.log.len() as u64);
    if rec.overflowed {
        return (
            Some(Violation::new("C04.steps", "stage=parse_bytes", step, format!("{} callbacks for a {}-byte buffer: each instruction must consume at least one word", rec.log.len(), bytes.len()))),
            false,
        );
    }
    // 2. parse_words when length and alignment allow
    if let Some(w) = gb.words() {
        let mut rec2 = Recorder::passive(bytes.len() / 4 + 4);
        if let Err(pi) = guarded(|| parse_words(w, &mut rec2)) {
            return (Some(stage_violation("parse_words", &pi, step)), false);
        }
        cov.hit("reached.parse_words");
    }
    // 2b. a well-behaved consumer may itself parse: re-enter the parser from inside a callback
    {
        struct Reenter<'a> {
            inner: &'a [u8],
            at: usize,
            seen: usize,
        }
        impl<'a> rspirv::binary::Consumer for Reenter<'a> {
            fn initialize(&mut self) -> rspirv::binary::ParseAction {
                rspirv::binary::ParseAction::Continue
            }
            fn finalize(&mut self) -> rspirv::binary::ParseAction {
                rspirv::binary::ParseAction::Continue
            }
            fn consume_header(&mut self, _h: dr::ModuleHeader) -> rspirv::binary::ParseAction {
                rspirv::binary::ParseAction::Continue
            }
            fn consume_instruction(&mut self, _i: dr::Instruction) -> rspirv::binary::ParseAction {
                if self.seen == self.at {
                    let _ = dr::load_bytes(self.inner);
                    let mut c = Counting(0);
                    let _ = parse_bytes(self.inner, &mut c);
                }
                self.seen += 1;
                rspirv::binary::ParseAction::Continue
            }
        }
        let mut r = Reenter { inner: gb.bytes(), at: bytes.len() % 3, seen: 0 };
        if let Err(pi) = guarded(|| parse_bytes(gb.bytes(), &mut r)) {
            return (Some(stage_violation("parse_reentered_from_callback", &pi, step)), false);
        }
    }
    // 3. load
    let module = match guarded(|| dr::load_bytes(gb.bytes())) {
        Err(pi) => return (Some(stage_violation("load_bytes", &pi, step)), false),
        Ok(Ok(m)) => m,
        Ok(Err(_)) => return (None, false),
    };
    cov.hit("reached.module_accepted");
    // 4. any accepted module can be assembled and disassembled
    if let Err(pi) = guarded(|| module.assemble()) {
        return (Some(stage_violation("assemble", &pi, step)), true);
    }
    // assembling INTO a vector that already holds data (modules concatenated into one buffer)
    if let Err(pi) = guarded(|| {
        let mut v: Vec<u32> = vec![0xABCD_EF01; bytes.len() / 2 + 3];
        let before = v.len();
        module.assemble_into(&mut v);
        assert!(v.len() >= before, "assemble_into shrank the vector");
    }) {
        return (Some(stage_violation("assemble_into_prefilled", &pi, step)), true);
    }
    if let Err(pi) = guarded(|| module.disassemble()) {
        return (Some(stage_violation("disassemble_module", &pi, step)), true);
    }
    for i in module.all_inst_iter() {
        if let Err(pi) = guarded(|| i.disassemble()) {
            return (Some(stage_violation("disassemble_instruction", &pi, step)), true);
        }
    }
    for f in &module.functions {
        if let Err(pi) = guarded(|| f.disassemble()) {
            return (Some(stage_violation("disassemble_function", &pi, step)), true);
        }
    }
    (None, true)
}

fn decoder_lane(bytes: &[u8], flush_end: bool, reqs: &[Req], cov: &mut Cov) -> Option<Violation> {
    if reqs.is_empty() {
        return None;
    }
    let gb = GuardedBuf::new(bytes, flush_end);
    let mut d = Decoder::new(gb.bytes());
    for (step, r) in reqs.iter().enumerate() {
        cov.hit("decoder_requests");
        let res = guarded(|| match r {
            Req::Word => {
                let _ = d.word();
            }
            Req::Words(n) => {
                let _ = d.words((*n).min(usize::MAX as u64) as usize);
            }
            Req::Str => {
                let _ = d.string();
            }
            Req::Bit32 => {
                let _ = d.bit32();
            }
            Req::Bit64 => {
                let _ = d.bit64();
            }
            Req::Id => {
                let _ = d.id();
            }
            Req::ExtInst => {
                let _ = d.ext_inst_integer();
            }
            Req::Typed(i) => {
                let _ = decode_typed(&mut d, *i as usize % TYPED_KINDS.len());
            }
            Req::Offset => {
                let _ = d.offset();
            }
            Req::SetLimit(n) => d.set_limit((*n).min(usize::MAX as u64) as usize),
            Req::ClearLimit => d.clear_limit(),
            Req::HasLimit => {
                let _ = d.has_limit();
            }
            Req::LimitReached => {
                let _ = d.limit_reached();
            }
        });
        if let Err(pi) = res {
            let name = match r {
                Req::Word => "word",
                Req::Words(_) => "words",
                Req::Str => "string",
                Req::Bit32 => "bit32",
                Req::Bit64 => "bit64",
                Req::Id => "id",
                Req::ExtInst => "ext_inst_integer",
                Req::Typed(_) => "typed",
                _ => "limit-api",
            };
            return Some(Violation::new("C04.panic", format!("stage=decoder.{} {}", name, pi.locus()), 1000 + step, pi.detail()));
        }
    }
    None
}

fn gen_reqs(rng: &mut Rng, nwords: u64) -> Vec<Req> {
    let n = rng.range(3, 20) as usize;
    let mut v = vec![];
    for _ in 0..n {
        v.push(match rng.below(14) {
            0 | 1 => Req::Word,
            2 => Req::Words(match rng.below(6) {
                0 => u64::MAX,
                1 => 1 << 62,
                _ => rng.below(7),
            }),
            3 | 4 | 5 => Req::Str,
            6 => Req::Bit64,
            7 => Req::Typed(rng.below(TYPED_KINDS.len() as u64) as u32),
            8 => Req::Id,
            9 => Req::ClearLimit,
            _ => Req::SetLimit(match rng.below(9) {
                0 => 0,
                1 => 1,
                2 => rng.below(6),
                3 => nwords,
                4 => nwords + 1,
                5 => u64::MAX / 4,
                6 => u64::MAX / 4 + 1,
                7 => u64::MAX,
                _ => rng.below(nwords + 2),
            }),
        });
    }
    v
}

impl Property for C04 {
    type Trace = Trace;
    const ID: &'static str = "C04";

    fn runs(tier: Tier) -> u64 {
        match tier {
            Tier::Quick => 300_000,
            Tier::Thorough => 30_000_000,
        }
    }

    fn generate(rng: &mut Rng, _tier: Tier) -> Trace {
        let s = snap();
        let style = rng.below(20);
        let (source, faults) = if style == 0 {
            // pure random bytes
            let n = rng.below(64) as usize;
            (Source::Raw((0..n).map(|_| rng.below(256) as u8).collect()), vec![])
        } else if style == 1 {
            // random words behind a valid header, first words shaped like instructions
            let mut w = vec![MAGIC, 0x0001_0000, 0, 100, 0];
            for _ in 0..rng.below(16) {
                if rng.chance(1, 2) {
                    let g = &s.insts[rng.usize_below(s.insts.len())];
                    w.push((rng.range(1, 6) as u32) << 16 | g.opcode as u32);
                } else {
                    w.push(rng.word());
                }
            }
            (Source::Raw(words_to_bytes(&w)), vec![])
        } else {
            let mut cfg = ProdCfg::parser_default(rng);
            cfg.max_insts = cfg.max_insts.max(2);
            cfg.giant = true;
            let mut stream = gen_stream(rng, cfg);
            // the spots the property names: OpSpecConstantOp naming any opcode, OpConstant with undeclared type,
            // strings right before a too-large word count
            if rng.chance(1, 3) {
                crate::producer::plant_spec_constant_op(rng, &mut stream);
            }
            if rng.chance(1, 4) {
                let at = rng.usize_below(stream.insts.len() + 1);
                stream.insts.insert(
                    at,
                    MInst {
                        opcode: s.op("Constant"),
                        rtype: Some(rng.range(1, 400) as u32),
                        rid: Some(rng.range(200, 300) as u32),
                        ops: vec![MOp::W(s.k_lit32, rng.word())],
                    },
                );
            }
            if rng.chance(1, 6) {
                // int/float declarations of every declared width incl. unsupported ones
                let at = rng.usize_below(stream.insts.len() + 1);
                let w = if rng.chance(1, 6) { crate::producer::near_miss_width(rng) } else { *rng.pick(&[0u32, 1, 7, 8, 16, 24, 32, 33, 48, 64, 65, 128, 0x8000_0000]) };
                let float = rng.chance(1, 2);
                let mut ops = vec![MOp::W(s.k_lit32, w)];
                if !float {
                    ops.push(MOp::W(s.k_lit32, rng.below(2) as u32));
                }
                stream.insts.insert(
                    at,
                    MInst {
                        opcode: if float { s.op("TypeFloat") } else { s.op("TypeInt") },
                        rtype: None,
                        rid: Some(rng.range(1, 20) as u32),
                        ops,
                    },
                );
            }
            if rng.chance(1, 5) {
                crate::producer::plant_ext_inst(rng, &mut stream);
            }
            if rng.chance(1, 5) {
                crate::producer::plant_late_type(rng, &mut stream);
            }
            let n = rng.below(5) as usize;
            let faults = if n == 0 { vec![] } else { faults::gen_faults(rng, &stream, n, faults::ALL_FAULTS) };
            (Source::Stream(stream), faults)
        };
        let nwords = match &source {
            Source::Raw(b) => b.len() as u64 / 4,
            Source::Stream(st) => st.encode().0.len() as u64,
        };
        let reqs = if rng.chance(1, 2) { gen_reqs(rng, nwords) } else { vec![] };
        let reuse = match &source {
            Source::Stream(st) if !st.insts.is_empty() && rng.chance(1, 4) => {
                let (w, starts) = st.encode();
                // cut right after some instruction's first words (often inside an open block), resume anywhere
                let j = rng.usize_below(starts.len());
                let cut = (starts[j] + rng.usize_below(3)).min(w.len()) * 4;
                Some((cut, rng.usize_below(st.insts.len())))
            }
            _ => None,
        };
        Trace {
            source,
            faults,
            reuse,
            sweep_trunc: nwords < 2000 && rng.chance(1, 30),
            flush_end: rng.chance(3, 4),
            reqs,
        }
    }

    fn execute(t: &Trace, cov: &mut Cov) -> RunOut {
        let mut h = AbsHash::new();
        let (bytes, fired) = match &t.source {
            Source::Raw(b) => {
                h.push(200, 0);
                (b.clone(), vec![])
            }
            Source::Stream(st) => faults::apply(st, &t.faults),
        };
        for f in &fired {
            cov.hit(f);
        }
        for f in &t.faults {
            h.push(100, f.code());
        }
        let (mut viol, accepted) = hammer(&bytes, t.flush_end, 0, cov);
        h.push(accepted as u32, (bytes.len() % 4) as u32);
        cov.triple(t.faults.first().map(|f| f.code()).unwrap_or(0), accepted as u32, (bytes.len() % 4) as u32);
        if viol.is_none() {
            viol = decoder_lane(&bytes, t.flush_end, &t.reqs, cov);
        }
        if viol.is_none() {
            if let (Some((cut, from)), Source::Stream(st)) = (&t.reuse, &t.source) {
                let (w, starts) = st.encode();
                if let Some(s0) = starts.get(*from) {
                    let first = &bytes[..(*cut).min(bytes.len())];
                    let mut second_words = w[..5].to_vec();
                    second_words.extend_from_slice(&w[*s0..]);
                    let second = words_to_bytes(&second_words);
                    let g1 = GuardedBuf::new(first, true);
                    let g2 = GuardedBuf::new(&second, true);
                    let mut loader = dr::Loader::new();
                    cov.hit("reached.loader_reused_across_parses");
                    let r = guarded(|| {
                        let _ = rspirv::binary::Parser::new(g1.bytes(), &mut loader).parse();
                        let _ = rspirv::binary::Parser::new(g2.bytes(), &mut loader).parse();
                    });
                    if let Err(pi) = r {
                        viol = Some(stage_violation("loader_reused", &pi, 2000));
                    }
                }
            }
        }
        if viol.is_none() && t.sweep_trunc {
            for k in 0..bytes.len() {
                cov.hit("fault.trunc");
                let (v, _) = hammer(&bytes[..k], true, k + 1, cov);
                if v.is_some() {
                    viol = v;
                    break;
                }
            }
        }
        RunOut {
            violation: viol,
            abs_hash: h.0,
            nontrivial: !fired.is_empty() || accepted || matches!(t.source, Source::Raw(_)),
        }
    }

    fn shrink(t: &Trace) -> Vec<Trace> {
        let mut out = vec![];
        if t.sweep_trunc {
            // materialise: try each truncation as an explicit fault / shorter raw buffer
            let mut c = t.clone();
            c.sweep_trunc = false;
            out.push(c);
            let len = match &t.source {
                Source::Raw(b) => b.len(),
                Source::Stream(st) => faults::apply(st, &t.faults).0.len(),
            };
            for k in 0..len {
                let mut c = t.clone();
                c.sweep_trunc = false;
                match &mut c.source {
                    Source::Raw(b) => b.truncate(k),
                    Source::Stream(_) => c.faults.push(Fault::Trunc(k)),
                }
                out.push(c);
            }
            return out;
        }
        if t.reuse.is_some() {
            let mut c = t.clone();
            c.reuse = None;
            out.push(c);
        }
        if !t.reqs.is_empty() {
            let mut c = t.clone();
            c.reqs.clear();
            out.push(c);
            for i in 0..t.reqs.len() {
                let mut c = t.clone();
                c.reqs.remove(i);
                out.push(c);
            }
        }
        for fl in faults::shrink_faults(&t.faults) {
            let mut c = t.clone();
            c.faults = fl;
            out.push(c);
        }
        match &t.source {
            Source::Stream(st) => {
                let n = st.insts.len();
                for (a, b) in shrink_chunks(n) {
                    let mut c = t.clone();
                    if let Source::Stream(s2) = &mut c.source {
                        s2.insts.drain(a..b);
                    }
                    c.faults.clear();
                    out.push(c);
                }
                for j in shrink_indices(n) {
                    let mut c = t.clone();
                    if let Source::Stream(s2) = &mut c.source {
                        s2.insts.remove(j);
                    }
                    c.faults = faults::reindex_after_remove(&t.faults, j);
                    out.push(c);
                }
                // convert to raw bytes (lets byte-level shrinking continue)
                let (b, _) = faults::apply(st, &t.faults);
                let mut c = t.clone();
                c.source = Source::Raw(b);
                c.faults = vec![];
                out.push(c);
            }
            Source::Raw(b) => {
                for k in [b.len() / 2, 4, 1] {
                    if k > 0 && b.len() > k {
                        let mut c = t.clone();
                        if let Source::Raw(b2) = &mut c.source {
                            b2.truncate(b.len() - k);
                        }
                        out.push(c);
                    }
                }
                // remove one word after the header
                let nw = b.len() / 4;
                for w in (5..nw).rev() {
                    let mut c = t.clone();
                    if let Source::Raw(b2) = &mut c.source {
                        b2.drain(w * 4..w * 4 + 4);
                    }
                    out.push(c);
                }
            }
        }
        out
    }

    fn meta() -> Meta {
        Meta {
            level: "fault_enumeration",
            rule: "each run is a producer module (with the spots the property names planted: OpSpecConstantOp naming any opcode, OpConstant of undeclared type, int/float declarations of every width) through 0-4 seeded storage faults, or raw random bytes / random words behind a valid header; the buffer sits against guard pages and goes through parse_bytes, parse_words, load_bytes and, when accepted, assemble / module, function and per-instruction disassemble; half the runs add a random Decoder request sequence with limits from 0 to usize::MAX; 1 run in 30 enumerates every truncation offset; invariant = no panic (overflow checks and debug assertions on), no signal, callbacks <= words; abstract trace = (fault kinds, accepted?, length residue); non-trivial = a fault fired, the module was accepted, or raw input",
            lanes: "consumer re-entering the parser from a callback; one Loader reused across a cut parse and a suffix parse; assemble_into on a pre-filled vector; ext-inst hot spot with boundary numbers, near-miss names and duplicate imports; constants whose type is declared (again) later; words(n) with n = 2^62, usize::MAX; rare giant features; thorough: self-contained Miri lane; opcode faults 0 / last+1 / +-1; zero padding behind the module; linkage / merge hot spots; dense ids across 2^k boundaries; constants typed through value ids; an id defined twice (typed by itself); literal specials (infinities, NaNs, half-float edges); SpecConstantOp naming special-kind opcodes and the edges of the opcode space; sparse-id lane",
            triple_measure: "(first fault kind, accepted?, buffer length residue mod 4)",
            item_measure: "n/a",
            assumptions: &[
                "undefined behaviour that neither traps natively nor trips a debug assertion (e.g. an invalid enum transmute) is only visible to the thorough tier's Miri lane",
                "consumer is well-behaved (recording consumer that always continues)",
            ],
            real_components: &["binary::Decoder", "binary::Parser (parse_bytes, parse_words incl. the unsafe slice reinterpretation)", "dr::Loader / load_bytes", "binary::Assemble", "binary::Disassemble (module, function, instruction)", "binary::tracker"],
            simulated_components: &["producer", "byte medium + fault injector", "guard pages", "recording consumer"],
            fault_kinds: faults::FAULT_KINDS,
        }
    }

    fn crash_is_violation() -> bool {
        true
    }
}

// ---------------------------------------------------------------------------
// Miri lane (thorough tier): undefined behaviour that does not trap natively
// (invalid enum transmutes, misaligned or out-of-bounds reads through the unsafe
// slice reinterpretation in parse_words).  Self-contained on purpose: no
// snapshot, no worker processes, no guard pages - Miri is the oracle.

struct Counting(usize);
impl rspirv::binary::Consumer for Counting {
    fn initialize(&mut self) -> rspirv::binary::ParseAction {
        rspirv::binary::ParseAction::Continue
    }
    fn finalize(&mut self) -> rspirv::binary::ParseAction {
        rspirv::binary::ParseAction::Continue
    }
    fn consume_header(&mut self, _h: dr::ModuleHeader) -> rspirv::binary::ParseAction {
        rspirv::binary::ParseAction::Continue
    }
    fn consume_instruction(&mut self, _i: dr::Instruction) -> rspirv::binary::ParseAction {
        self.0 += 1;
        rspirv::binary::ParseAction::Continue
    }
}

pub fn miri_lane(start: u64, count: u64) -> i32 {
    use rspirv::grammar::{CoreInstructionTable, OperandKind, OperandQuantifier};
    let seed = crate::runner::seed_from_env();
    let table: Vec<&'static rspirv::grammar::Instruction<'static>> = CoreInstructionTable::iter().collect();
    let mut accepted = 0u64;
    for run in start..start + count {
        println!("MIRI-RUN {}", run);
        let mut rng = Rng::new(crate::rng::mix(seed, crate::rng::fnv("C04-miri"), run));
        let mut w: Vec<u32> = vec![MAGIC, 0x0001_0000 | ((rng.below(7) as u32) << 8), rng.word(), 64, 0];
        // most bodies sit inside one function/block so that the loader accepts the module
        let wrapped = rng.chance(3, 4);
        if wrapped {
            w.extend_from_slice(&[(5 << 16) | 54, 1, 2, 0, 3, (2 << 16) | 248, 4]);
        }
        for _ in 0..rng.range(1, 8) {
            let g = table[rng.usize_below(table.len())];
            let at = w.len();
            w.push(0);
            for op in g.operands {
                let reps = match op.quantifier {
                    OperandQuantifier::One => 1,
                    OperandQuantifier::ZeroOrOne => rng.below(2),
                    OperandQuantifier::ZeroOrMore => rng.below(3),
                };
                for _ in 0..reps {
                    match op.kind {
                        OperandKind::LiteralString => {
                            let n = rng.below(7) as usize;
                            let mut b: Vec<u8> = (0..n).map(|_| b'a' + rng.below(26) as u8).collect();
                            b.push(0);
                            while b.len() % 4 != 0 {
                                b.push(0);
                            }
                            for c in b.chunks(4) {
                                w.push(u32::from_le_bytes([c[0], c[1], c[2], c[3]]));
                            }
                        }
                        OperandKind::IdResultType | OperandKind::IdResult | OperandKind::IdRef | OperandKind::IdScope | OperandKind::IdMemorySemantics => w.push(rng.range(1, 40) as u32),
                        // enumerants, masks, literals: small numbers (often valid), boundary values, or junk
                        _ => w.push(match rng.below(10) {
                            0 => rng.word(),
                            1 => 1 << rng.below(20),
                            2 => 4000 + rng.below(2600) as u32,
                            3 => rng.below(48) as u32,
                            _ => rng.below(6) as u32,
                        }),
                    }
                }
            }
            let wc = (w.len() - at) as u32;
            w[at] = (wc << 16) | (g.opcode as u32);
        }
        if wrapped {
            w.extend_from_slice(&[(1 << 16) | 253, (1 << 16) | 56]);
        }
        // storage faults (half of the runs stay clean so that whole modules get through)
        let nfaults = if rng.chance(1, 2) { 0 } else { rng.range(1, 2) };
        for _ in 0..nfaults {
            let i = rng.usize_below(w.len());
            match rng.below(3) {
                0 => w[i] ^= 1 << rng.below(32),
                1 => w[i] = rng.word(),
                _ => w[i] = (w[i] & 0xffff) | ((rng.below(12) as u32) << 16),
            }
        }
        let mut bytes = words_to_bytes(&w);
        if nfaults > 0 && rng.chance(1, 3) {
            let k = rng.usize_below(bytes.len() + 1);
            bytes.truncate(k);
        }
        let gb = GuardedBuf::new(&bytes, true);
        let mut c = Counting(0);
        let _ = parse_bytes(gb.bytes(), &mut c);
        if let Some(ws) = gb.words() {
            let mut c2 = Counting(0);
            let _ = parse_words(ws, &mut c2);
        }
        // deliberately also an UNALIGNED byte view (offset 1 into a larger buffer)
        let mut shifted = vec![0u8; bytes.len() + 1];
        shifted[1..].copy_from_slice(&bytes);
        let _ = parse_bytes(&shifted[1..], &mut Counting(0));
        if let Ok(m) = dr::load_bytes(gb.bytes()) {
            accepted += 1;
            let asm = m.assemble();
            let _ = m.disassemble();
            let _ = dr::load_words(&asm);
        }
        // a few typed decoder requests straight on the buffer
        let mut d = Decoder::new(gb.bytes());
        for _ in 0..6 {
            let _ = decode_typed(&mut d, rng.usize_below(TYPED_KINDS.len()));
            let _ = d.string();
        }
    }
    println!("[C04] miri lane: runs {}..{} completed, {} modules accepted, no undefined behaviour reported", start, start + count, accepted);
    0
}
