//! Generates the Builder call table from the *current* /repo sources: parses the
//! signature of every `pub fn` in rspirv/dr/build/{mod,autogen_*}.rs and emits
//! `glue.rs` (method table + one dispatch function).  Regenerated whenever those
//! files change.  A method whose parameter types the glue does not know is
//! listed with `callable: false` and counted in the evidence as unmapped.

use std::fmt::Write as _;
use std::path::Path;

const FILES: &[&str] = &[
    "mod.rs",
    "autogen_type.rs",
    "autogen_constant.rs",
    "autogen_annotation.rs",
    "autogen_terminator.rs",
    "autogen_debug.rs",
    "autogen_norm_insts.rs",
];

struct Method {
    file: String,
    name: String,
    receiver: String,
    params: Vec<(String, String)>,
    ret: String,
}

fn norm_ws(s: &str) -> String {
    s.split_whitespace().collect::<Vec<_>>().join(" ")
}

fn split_top(s: &str) -> Vec<String> {
    let mut parts = vec![];
    let mut depth = 0i32;
    let mut cur = String::new();
    for ch in s.chars() {
        match ch {
            '<' | '(' | '[' => depth += 1,
            '>' | ')' | ']' => depth -= 1,
            _ => {}
        }
        if ch == ',' && depth == 0 {
            parts.push(cur.trim().to_string());
            cur.clear();
        } else {
            cur.push(ch);
        }
    }
    if !cur.trim().is_empty() {
        parts.push(cur.trim().to_string());
    }
    parts
}

fn parse_file(file: &str, src: &str, out: &mut Vec<Method>) {
    let src = match src.find("#[cfg(test)]") {
        Some(i) => &src[..i],
        None => src,
    };
    let bytes = src.as_bytes();
    let mut pos = 0;
    while let Some(i) = src[pos..].find("pub fn ") {
        let start = pos + i + "pub fn ".len();
        let mut j = start;
        while j < bytes.len() && (bytes[j].is_ascii_alphanumeric() || bytes[j] == b'_') {
            j += 1;
        }
        let name = src[start..j].to_string();
        // skip generics
        let mut k = j;
        while bytes[k] != b'(' {
            k += 1;
        }
        // matching paren
        let mut depth = 0i32;
        let mut e = k;
        loop {
            match bytes[e] {
                b'(' => depth += 1,
                b')' => {
                    depth -= 1;
                    if depth == 0 {
                        break;
                    }
                }
                _ => {}
            }
            e += 1;
        }
        let params_src = norm_ws(&src[k + 1..e]);
        let brace = e + src[e..].find('{').unwrap();
        let ret_src = norm_ws(&src[e + 1..brace]);
        let ret = ret_src.strip_prefix("->").map(|s| s.trim().to_string()).unwrap_or_else(|| "()".to_string());
        let mut receiver = String::new();
        let mut params = vec![];
        for p in split_top(&params_src) {
            if p == "&mut self" || p == "&self" || p == "self" {
                receiver = p;
                continue;
            }
            if let Some((n, t)) = p.split_once(':') {
                params.push((n.trim().to_string(), t.trim().to_string()));
            }
        }
        out.push(Method {
            file: file.to_string(),
            name,
            receiver,
            params,
            ret,
        });
        pos = brace;
    }
}

fn arg_expr(name: &str, ty: &str) -> Option<String> {
    Some(match ty {
        "spirv::Word" => format!("a.word(\"{}\")", name),
        "u32" => format!("a.u32(\"{}\")", name),
        "u64" => format!("a.u64(\"{}\")", name),
        "Option<spirv::Word>" => format!("a.opt_word(\"{}\")", name),
        "InsertPoint" => "a.insert_point()".to_string(),
        "impl IntoIterator<Item = dr::Operand>" => format!("a.operands(\"{}\")", name),
        "impl IntoIterator<Item = spirv::Word>" | "impl IntoIterator<Item = u32>" | "impl AsRef<[u32]>" | "impl AsRef<[spirv::Word]>" => format!("a.words(\"{}\")", name),
        "impl Into<String>" => format!("a.string(\"{}\")", name),
        "Option<impl Into<String>>" => format!("a.opt_string(\"{}\")", name),
        "impl IntoIterator<Item = (dr::Operand, spirv::Word)>" => format!("a.pairs_lit_id(\"{}\")", name),
        "impl IntoIterator<Item = (spirv::Word, spirv::Word)>" => format!("a.pairs_id_id(\"{}\")", name),
        "impl IntoIterator<Item = (spirv::Word, u32)>" => format!("a.pairs_id_lit(\"{}\")", name),
        t if t.starts_with("Option<spirv::") && t.ends_with('>') => {
            let inner = &t["Option<".len()..t.len() - 1];
            format!("a.opt_en::<{}>(\"{}\")", inner, name)
        }
        t if t.starts_with("spirv::") => format!("a.en::<{}>(\"{}\")", t, name),
        _ => return None,
    })
}

fn ret_expr(ret: &str, call: &str) -> Option<String> {
    Some(match ret {
        "BuildResult<spirv::Word>" => format!("Ret::ResId({}.map_err(|e| err_name(&e)))", call),
        "BuildResult<()>" => format!("Ret::ResUnit({}.map_err(|e| err_name(&e)))", call),
        "spirv::Word" => format!("Ret::Id({})", call),
        "()" => format!("{{ {}; Ret::Unit }}", call),
        _ => return None,
    })
}

fn main() {
    // VERIF_REPO lets the parallel evaluation scripts point a scratch copy of the simulator at a scratch
    // copy of the repository; every registered check builds against /repo itself
    println!("cargo:rerun-if-env-changed=VERIF_REPO");
    let repo = std::env::var("VERIF_REPO").unwrap_or_else(|_| "/repo".to_string());
    let dir_buf = Path::new(&repo).join("rspirv/dr/build");
    let dir = dir_buf.as_path();
    let mut methods = vec![];
    for f in FILES {
        let p = dir.join(f);
        println!("cargo:rerun-if-changed={}", p.display());
        let src = std::fs::read_to_string(&p).unwrap_or_else(|e| panic!("read {}: {}", p.display(), e));
        parse_file(f, &src, &mut methods);
    }
    println!("cargo:rerun-if-changed=build.rs");
    let mut table = String::new();
    let mut arms = String::new();
    for (idx, m) in methods.iter().enumerate() {
        let mut callable = m.receiver == "&mut self";
        let mut args = vec![];
        for (n, t) in &m.params {
            match arg_expr(n, t) {
                Some(e) => args.push(e),
                None => callable = false,
            }
        }
        let lets: String = args.iter().enumerate().map(|(i, e)| format!("let p{} = {}; ", i, e)).collect();
        let call = format!("b.{}({})", m.name, (0..args.len()).map(|i| format!("p{}", i)).collect::<Vec<_>>().join(", "));
        let body = if callable { ret_expr(&m.ret, &call) } else { None };
        let callable = body.is_some();
        let params_lit: String = m.params.iter().map(|(n, t)| format!("(\"{}\", \"{}\"), ", n, t)).collect();
        writeln!(
            table,
            "    MethodInfo {{ name: \"{}\", file: \"{}\", params: &[{}], ret: \"{}\", callable: {} }},",
            m.name, m.file, params_lit, m.ret, callable
        )
        .unwrap();
        if let Some(body) = body {
            writeln!(arms, "        {} => {{ {}{} }}", idx, lets, body).unwrap();
        }
    }
    let code = format!(
        "// generated by build.rs from /repo/rspirv/dr/build/*.rs — do not edit\n\
         pub static METHODS: &[MethodInfo] = &[\n{}];\n\n\
         #[allow(clippy::all, unused_variables)]\n\
         pub fn call_method(b: &mut Builder, idx: usize, a: &mut ArgSrc) -> Ret {{\n    match idx {{\n{}        _ => Ret::NotCallable,\n    }}\n}}\n",
        table, arms
    );
    let out = std::env::var("OUT_DIR").unwrap();
    std::fs::write(Path::new(&out).join("glue.rs"), code).unwrap();
}
