fn main(){}
