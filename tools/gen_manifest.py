#!/usr/bin/env python3
"""Regenerates /verif/MANIFEST.json from the table below (run after adding a check)."""
import json, os, sys

ROOT = os.path.dirname(os.path.dirname(os.path.abspath(__file__)))

NA = {
 "C02": "point-wise codec identity per (opcode, operand vector); no call order, state, fault or interleaving enters it, so deterministic simulation has no purchase (DESIGN.md §7)",
 "C07": "disassembly text and its injectivity are a pure function of one module (of a pair, for injectivity); needs a text re-parser, not a scheduler or fault injector (DESIGN.md §7)",
 "C08": "stateless table identity over 2^32 numbers x 60 types; exhaustive enumeration is the fitting tool, sampling schedules cannot reach one bad number (DESIGN.md §7)",
 "C09": "static table totality/uniqueness; equality with the Khronos grammar cannot even be stated here because the JSON is not in the tree (DESIGN.md §7)",
 "C15": "traversals are pure functions of a dr::Module value; no history, fault or schedule (DESIGN.md §7)",
 "C16": "a 787 x 13 truth table; nothing for a simulator to order or break (DESIGN.md §7)",
 "C17": "point-wise agreement of two generated tables and of From/unwrap pairs (DESIGN.md §7)",
 "C18": "lifting is a pure function of a module on a documented-unstable subset; no state survives between modules (DESIGN.md §7)",
}

# id -> (level category, level text, level note, technique, design ref)
CHECKS = {
 "C11": ("exploration",
         "Seeded search over decoder request/limit histories on fault-shaped buffers (EOF at any byte, ragged tails, limits from 0 to usize::MAX), each step judged against a two-field executable reference decoder; buffers sit against PROT_NONE guard pages so an out-of-buffer read kills the worker and is reported. Sampling, not proof: a clean batch is evidence over the histories explored.",
         "Trusts the frozen grammar snapshot for enumerant validity, the reference decoder model (150 lines), and rustc's overflow checks / guard pages for detecting overflow and overread.",
         "deterministic simulation: seeded request-history generation + reference-model refinement check + fault injection on the byte medium; delta-debugged replay files", "§5 C11"),
 "C19": ("exploration",
         "Seeded search over append / fetch_or_append / lookup histories on sr::Storage with adversarial equality relations (NaN-like, non-transitive) and an equality that unwinds mid-scan as the injected fault, refined step by step against a Vec model with a token-stability invariant after every step.",
         "Trusts the Vec reference model; equality relations are symmetric by construction; after an unwinding comparison only the weak post-condition is demanded.",
         "deterministic simulation: seeded operation histories + reference-model refinement + injected unwinding comparison; delta-debugged replay files", "§5 C19"),
}

PLANNED = ["C01", "C03", "C04", "C05", "C06", "C10", "C12", "C13", "C14", "C20"]

def main():
    checks = []
    for pid in sorted(CHECKS):
        cat, text, note, tech, ref = CHECKS[pid]
        checks.append({
            "property_id": pid,
            "quick_cmd": f"./check {pid} quick",
            "thorough_cmd": f"./check {pid} thorough",
            "evidence_file": f"evidence/{pid}.json",
            "replay_cmd_template": "./check replay {path}",
            "engine": "sim",
            "level_claimed": {"category": cat, "text": text, "design_ref": f"DESIGN.md {ref}"},
            "level_note": note,
            "technique": tech,
        })
    na = [{"property_id": k, "reason": v} for k, v in sorted(NA.items())]
    na += [{"property_id": k, "reason": "check not built yet (planned simulation target, DESIGN.md §5); not claimed until its check exists"} for k in PLANNED if k not in CHECKS]
    m = {
        "version": 1,
        "setup_cmd": "./check setup",
        "hooks": {
            "guard": "rspirv_verif",
            "enable": "none needed: every seam the simulator drives is public API (Consumer, Decoder, Builder, Loader, Storage<T: PartialEq>, byte input, the rspirv-dis executable); no hook exists in /repo and shipped behaviour is untouched by construction",
            "baseline_off_cmd": "cd /repo && cargo test --workspace --no-fail-fast --offline",
            "source_commits": [],
            "add_only": True,
        },
        "engines": [{
            "name": "sim",
            "path": "sim",
            "serves_properties": sorted(CHECKS),
            "kind_free_text": "seeded deterministic simulator (Rust, path-depends on /repo/rspirv so every build is from the working tree): one PRNG from VERIF_SEED generates a concrete trace (workload + faults + consumer scripts + swarm configuration); a pure executor drives the real rspirv code through its public seams and judges it against small executable reference models; worker processes give crash containment; delta-debugging shrinker; replay files reproduced in a fresh process before any VIOLATION is printed",
        }],
        "checks": checks,
        "notes": "See DESIGN.md. Exit codes of every command: 0 held / only KNOWN-FINDING lines, 1 VIOLATION, 2 harness or build error. known_findings.json lists genuine defects (status known/fixed); regress/<id>/*.json are replay files of repaired defects that every check re-executes first. data/grammar_snapshot.json is frozen reference data extracted once from the pinned tree.",
        "not_applicable": sorted(na, key=lambda x: x["property_id"]),
    }
    json.dump(m, open(os.path.join(ROOT, "MANIFEST.json"), "w"), indent=1)
    print("checks:", [c["property_id"] for c in checks], "n/a:", [x["property_id"] for x in m["not_applicable"]])

if __name__ == "__main__":
    main()
