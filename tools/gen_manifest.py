#!/usr/bin/env python3
"""Regenerates /verif/MANIFEST.json from the table below (run after adding a check)."""
import json, os, sys

ROOT = os.path.dirname(os.path.dirname(os.path.abspath(__file__)))

NA = {
 "C02": "point-wise codec identity per (opcode, operand vector); no call order, state, fault or interleaving enters it, so deterministic simulation has no purchase (DESIGN.md §7)",
 "C07": "disassembly text and its injectivity are a pure function of one module (of a pair, for injectivity); needs a text re-parser, not a scheduler or fault injector (DESIGN.md §7)",
 "C08": "stateless table identity over 2^32 numbers x 60 types; exhaustive enumeration is the fitting tool, sampling schedules cannot reach one bad number (DESIGN.md §7)",
 "C09": "static table totality/uniqueness; equality with the Khronos grammar cannot even be stated here because the JSON is not in the tree (DESIGN.md §7)",
 "C15": "traversals are pure functions of a dr::Module value; no history, fault or schedule (DESIGN.md §7)",
 "C16": "a 787 x 13 truth table; nothing for a simulator to order or break (DESIGN.md §7)",
 "C17": "point-wise agreement of two generated tables and of From/unwrap pairs (DESIGN.md §7)",
 "C18": "lifting is a pure function of a module on a documented-unstable subset; no state survives between modules (DESIGN.md §7)",
}

# id -> (level category, level text, level note, technique, design ref)
SIM_TECH = "deterministic simulation: seeded trace generation (one PRNG from VERIF_SEED) + pure trace executor against the real code + executable reference model as oracle + fault injection; seeded search over many runs in crash-contained worker processes; delta-debugged replay files confirmed in a fresh process"

CHECKS = {
 "C01": ("exploration",
         "Seeded search over producer modules pushed through a legally REORDERING medium (module-level instructions moved anywhere incl. into blocks, sections permuted, parameters moved behind blocks, string padding and spare version bytes randomised), then real load -> real assemble -> real load; conservation / exactly-once / stable-order oracle word for word against an independent reference encoder and the bracket automaton's layout sort. Also injects storage faults the loader should reject (string bytes made invalid UTF-8, undeclared enumerant words, stray structural instructions): if the loader accepts such an input anyway, frame-level conservation (same words, none dropped or invented) is still demanded. Rare scale lanes (0xFFFF-word instructions, 65k+/262k-byte strings, 66k tracked ids), boundary ids and header values. Sampling over 5e5 modules per quick run; all opcodes whose layout class the statement fixes are exercised. For inputs the loader accepts although the reference rejects them, relative order inside every output section, parameter list and function is demanded as well. Further hot spots: stray OpLine + body instruction outside blocks, declarations moved into a block behind an OpLine, registered extension names, boundary header bounds, linkage decorations on function ids, merge instructions naming the next label, dense ids across 2^k boundaries.",
         "Trusts the reference encoder, the reference acceptor (its reading of the input bytes defines 'the input's instructions'), the hand-transcribed layout table (DESIGN §3.4) and the frozen grammar snapshot. Conditional on acceptance: a module the real loader rejects is skipped (C05 reports that).",
         SIM_TECH + "; faults = legal message reordering / padding corruption", "§5 C01"),
 "C03": ("fault_enumeration",
         "Seeded producer modules over all 787 opcodes through 0-3 storage faults (truncation, bit flips, word/word-count/opcode/enumerant substitution, operand loss/insertion, unterminated strings, message loss/dup/reorder, garbage), judged against a table-driven reference acceptor run on the post-fault bytes: acceptance, delivered prefix, error class, instruction number, offset extent. One run in 25 ENUMERATES every truncation offset and every word-count/operand-drop/operand-extra variant of one instruction (the property's own quantifier). The rendered one-line message must name the same instruction number and offset as the error value. Hot spots: boundary ids (0, 2^31, u32::MAX), BOM / LF / invalid-UTF-8 strings, the magic number inside the stream, rare giant instructions/strings/type tables. Opcode faults 0 / last+1 / +-1 around declared opcodes, surplus payload on operand-less instructions, zero padding behind the module, dense 64-bit-typed ids with a consumer at every 2^k-1, 2^k, 2^k+1, header dictionaries (generator tool ids, version 0.99). One run in five applies one surplus word and one missing last word to EVERY instruction of the stream (light sweep); every byte order of the magic number. Sparse-id lane: thousands of type ids scattered over the 32-bit space, each consumed (collisions in lossy id maps); literal values special for the declared format; ids defined twice.",
         "Grammar = frozen snapshot of the pinned tree (Khronos JSON is not available offline); documented don't-cares (trailing 1-3 byte fragment, OpSpecConstantOp nesting optional/variadic operands, poisoned ids); an extent clipped by EOF may be reported as missing or surplus.",
         SIM_TECH + "; single-fault positions enumerated per seeded workload", "§5 C03"),
 "C04": ("fault_enumeration",
         "Invariant check (no panic with overflow checks and debug assertions on, no signal under guard pages, callbacks <= words) over multi-fault corruptions of producer modules, planted hot spots (OpSpecConstantOp naming any opcode, OpConstant of undeclared type, every int/float width), raw random bytes/words, every entry point (parse_bytes, parse_words, load_bytes, assemble, module/function/instruction disassemble) and random Decoder request sequences with limits 0..usize::MAX; one run in 30 enumerates every truncation offset; further lanes: a consumer that re-enters the parser from a callback, one Loader reused across two parses, assemble_into on a pre-filled vector, known / near-miss extended-instruction sets with boundary numbers and duplicate imports, constants whose type is declared later, rare giant features. Worker-process death is contained, attributed to the run and reported. Thorough adds a self-contained Miri lane (cargo +nightly miri) for UB that does not trap natively.",
         "UB that neither traps nor trips a debug assertion is outside the native lanes (Miri lane: see DESIGN §2.4 status). Consumer is well-behaved by construction.",
         SIM_TECH + "; guard pages + process containment decide out-of-buffer reads and aborts", "§5 C04"),
 "C05": ("exploration",
         "Seeded instruction-class histories (well-formed module hit by message faults drop/dup/swap/move/insert biased to bracket boundaries, or free words of length <= 8 over the alphabet) fed to the real loader through load_words; a reference bracket automaton + section map predicts acceptance, the FIRST structural error and the resulting module section by section. All (state, letter) transitions are reached in the quick tier (evidence: state_triples). A line instruction in a function outside a block leaves only ITS placement unconstrained; block/terminator and placement clauses for everything else are still checked. Direct-feed lane: the same history handed to a Loader with the binary's real generator / schema words (the parser's header drops them) must give the same verdict and module as load_words. Merge instructions naming the following label, Capability Linkage + LinkageAttributes on function ids.",
         "Layout classes and terminator set are a hand transcription of the SPIR-V logical layout limited to the classes the property names (vendor / context-dependent module-scope opcodes are outside the alphabet). OpLine in a function outside a block is not judged.",
         SIM_TECH + "; message-level faults on the instruction history", "§5 C05"),
 "C06": ("exploration",
         "Seeded complete Builder histories over the WHOLE source-derived method table (1149 bound methods; build.rs re-derives the call table from /repo's sources on every build): every call's emitted instruction is compared with the intended grammar-order operand list, then module() -> assemble -> load_words must succeed and the loaded module must equal the built one section by section; version and bound checked. Quick tier calls every bound method >= 100 times. Conjunction hot spots through argument biasing (names, function/struct/constant ids, reserved explicit ids defined out of numeric order, repeated set_version) and rare scale ops (65 535-word instructions, 65k+ byte strings, 65k+ typed ids). Near-repeat lane (a request again, or with exactly one operand changed / toggled) and method-repeat post-pass; annotations aimed at the function being built; functions without a body; switches on 64-bit selectors; scale lane followed by functions that switch on the late 64-bit constant. Enumerant-pair sweep: pairs of execution modes / decorations on one id, half of them related by name (LocalSize / LocalSizeId, ...).",
         "Method<->opcode binding is by name (heck snake_case) plus a table for hand-written methods; arguments are kept grammar-conforming by construction (see evidence assumptions); 10 known findings (known_findings.json) are reported as KNOWN-FINDING lines.",
         SIM_TECH + "; refinement of recorded intent", "§5 C06"),
 "C10": ("exploration",
         "Seeded histories of int/float declarations (supported and unsupported widths), value definitions carrying types through result types, and OpConstant/OpSpecConstant/OpSwitch consumers on declared/undeclared/forward-declared ids, judged against a reference type context; each history is also parsed under a schedule involving a conflicting second binary: after it, NESTED inside its k-th consumer callback (re-entrancy), it nested inside the history's parse, one consumer reused - results must equal the stand-alone parse; assembler word counts re-checked. Float declarations with the optional encoding operand, literals of all 363 distinct int/float types, 65k+ tracked ids before a 64-bit value / literal / switch. Value definitions by any value-defining opcode of the grammar with id operands from the history's typed ids; bystander instructions of any other kind in between (capabilities, extensions, functions, labels, ...); dense ids up to 66 000, all typed 64-bit, with a consumer at every 2^k-1, 2^k, 2^k+1. Ids defined by other instructions and near-miss ids (one bit away from a typed id) as result types and selectors; header bounds 0 / 1 / too small; annotations in front aimed at ids defined later. Sparse-id lane (thousands of scattered type ids, each consumed).",
         "Ids are defined once in the history under test; literal-truncation faults only.",
         SIM_TECH + "; schedules = order / nesting of two parses through the Consumer seam", "§5 C10"),
 "C11": ("exploration",
         "Seeded search over decoder request/limit histories on fault-shaped buffers (EOF at any byte, ragged tails, limits from 0 to usize::MAX), each step judged against a two-field executable reference decoder; buffers sit against PROT_NONE guard pages so an out-of-buffer read kills the worker and is reported. One run in 8 is an ENUMERATION probe over every declared (typed request, number) pair of the 56 typed requests and its neighbours; astronomically large and wrap-around word counts; 262 KiB strings. Buffers that start 1..3 bytes past a word boundary; runs of 16..120 plain words with words(7..80).",
         "Trusts the frozen grammar snapshot for enumerant validity and the reference decoder model; after a failed multi-word/typed/string request the model re-synchronises as the crate documents.",
         SIM_TECH, "§5 C11"),
 "C12": ("exploration",
         "Seeded Builder call histories drawn regardless of legality (failing calls are the fault dimension), arbitrary selection indices, insert_ forms with in-range insertion points, stale-selection shapes as prefixes; after EVERY call: no panic, selection designates an existing function/block or nothing, Err iff the stated rule on the selection observed before the call, Err leaves the module unchanged (mirror taken before the call), Ok has exactly the documented effect, terminators/end_function close; a failed call moves neither instructions nor selection. Indices >= 2^32, functions with 255..1025 parameters, name-based selection against biased entry-point / OpName names. Near-repeat lane and method-repeat post-pass; annotations aimed at the open function (decorate LinkageAttributes, name, execution_mode, ...); functions sharing one explicit id, named and selected by name while a later block is open.",
         "Where the statement is silent the model observes instead of predicting (which module-level section, block selection after select_function, success of select_*/pop).",
         SIM_TECH + "; failure atomicity against a mirror model", "§5 C12"),
 "C13": ("exploration",
         "Seeded histories biased to id allocation: id(), all 65 generated type methods with and without explicit ids over a small request pool, constants, functions/blocks, block methods that reserve an id and then fail, continuation through Builder::new_from_module; fresh ids strictly increasing/distinct from 1 (or the bound), bound = id()+1 at module(), dedup returns an existing identical declaration and adds nothing, explicit ids always append, no duplicate types, distinct requests never share an id. Half of the runs take module() without a final id() probe (nothing may repair a stale bound); continuation from arbitrary header bounds (0, 1, 2^31, ...); biased decorate / forward-pointer / struct / array / constant arguments so that related requests recur. Near-repeat lane: a type request again or with exactly one enumerant / id / literal changed or one optional operand toggled; capability / extension / memory_model / name calls between the requests; enumerants biased to the well-known low numbers.",
         "Number of ids burnt by failed calls is not modelled (only monotonicity and the exact final bound).",
         SIM_TECH + "; monotone-id / bound / dedup model", "§5 C13"),
 "C14": ("fault_enumeration",
         "Per seeded binary (clean or with 1-2 storage faults) the scripted consumer's answer is ENUMERATED over every callback position k in {initialize, header, each instruction, finalize, one past} x {Stop, Error(unique tag)}, plus random multi-deviation scripts and the real Loader wrapped in a logging consumer; the callback log and the returned ParseState are checked against the protocol automaton, the all-Continue baseline, the reference acceptor (Ok + finalize only for binaries the reference does not reject) and the parse_words entry point; consumer errors of several concrete types (incl. ParseState and dr::Error) must come back unchanged. Twelve standard-library error values (io::Error of kind Interrupted / WouldBlock / UnexpectedEof / ..., fmt::Error, Utf8Error, boxed strings) are swept over every callback position too; header dictionaries (generator tool ids, version 0.99); multi-word OpNop. One clean binary in three is additionally parsed cut at every word boundary (Ok + finalize only if the cut falls between instructions).",
         "A binary on which the all-Continue parse panics is C04's finding and skipped; acceptance itself is C03's question.",
         SIM_TECH + "; cancellation injected at every callback position", "§5 C14"),
 "C20": ("fault_enumeration",
         "The REAL rspirv-dis executable (built from /repo's working tree by ./check) is executed on real files: empty, random bytes, random words behind a valid header, producer modules clean or with 1-3 storage faults; a share of the runs executes it under strace with EINTR injected into the 1st or 2nd read(2) of the input file - both read calls the program issues - so the syscall-level fault positions are enumerated; a share feeds the bytes through a pipe (/dev/stdin, 4 KiB pieces) instead of a regular file; rare files beyond 16 MiB; exit status, signal, stderr and byte-exact stdout are compared with the library result computed in process, and a loading error must be one line. Foreign bytes around the content (the tool's own textual output, a BOM, other magics in front; LF / CRLF runs, NULs, Ctrl-Z behind). Files around 64 KiB / 1 MiB / 16 MiB with six header variants, ending cleanly or in an error; disassemblies of round line counts.",
         "Expected stdout comes from the same /repo library (load_bytes + Disassemble / Display); strace availability is probed per run and skipped runs are counted; only single-shot EINTR injection.",
         SIM_TECH + "; process-level simulation with syscall fault injection (strace) - the only lane with real I/O", "§5 C20"),
 "C19": ("exploration",
         "Seeded search over append / fetch_or_append / lookup histories on sr::Storage with adversarial equality relations (NaN-like, non-transitive) and an equality that unwinds mid-scan as the injected fault, refined step by step against a Vec model with a token-stability invariant after every step. Element types: data-carrying struct, two-variant enum, zero-sized, 136-byte; relations incl. irreflexive equals-others-of-its-class and a `ne` inconsistent with `eq`; storages pre-filled with 3e3..1.1e6 values. Element types of 65 600 bytes and 1 MiB + 16. and 4 MiB + 8; storages built through Default / mem::take; pre-fills through fetch_or_append; fetch targets at the edges of power-of-two look-back windows.",
         "Trusts the Vec reference model; equality relations are symmetric by construction; after an unwinding comparison only the weak post-condition is demanded.",
         SIM_TECH, "§5 C19"),
}

PLANNED = []

def main():
    checks = []
    for pid in sorted(CHECKS):
        cat, text, note, tech, ref = CHECKS[pid]
        checks.append({
            "property_id": pid,
            "quick_cmd": f"./check {pid} quick",
            "thorough_cmd": f"./check {pid} thorough",
            "evidence_file": f"evidence/{pid}.json",
            "replay_cmd_template": "./check replay {path}",
            "engine": "sim",
            "level_claimed": {"category": cat, "text": text, "design_ref": f"DESIGN.md {ref}"},
            "level_note": note,
            "technique": tech,
        })
    na = [{"property_id": k, "reason": v} for k, v in sorted(NA.items())]
    na += [{"property_id": k, "reason": "check not built yet (planned simulation target, DESIGN.md §5); not claimed until its check exists"} for k in PLANNED if k not in CHECKS]
    m = {
        "version": 1,
        "setup_cmd": "./check setup",
        "hooks": {
            "guard": "rspirv_verif",
            "enable": "none needed: every seam the simulator drives is public API (Consumer, Decoder, Builder, Loader, Storage<T: PartialEq>, byte input, the rspirv-dis executable); no hook exists in /repo and shipped behaviour is untouched by construction",
            "baseline_off_cmd": "cd /repo && cargo test --workspace --no-fail-fast --offline",
            "source_commits": [],
            "add_only": True,
        },
        "engines": [{
            "name": "sim",
            "path": "sim",
            "serves_properties": sorted(CHECKS),
            "kind_free_text": "seeded deterministic simulator (Rust, path-depends on /repo/rspirv so every build is from the working tree): one PRNG from VERIF_SEED generates a concrete trace (workload + faults + consumer scripts + swarm configuration); a pure executor drives the real rspirv code through its public seams and judges it against small executable reference models; worker processes give crash containment; delta-debugging shrinker; replay files reproduced in a fresh process before any VIOLATION is printed",
        }],
        "checks": checks,
        "notes": "See DESIGN.md. Exit codes of every command: 0 held / only KNOWN-FINDING lines, 1 VIOLATION, 2 harness or build error. known_findings.json lists genuine defects (status known/fixed); regress/<id>/*.json are replay files of repaired defects that every check re-executes first. data/grammar_snapshot.json is frozen reference data extracted once from the pinned tree.",
        "not_applicable": sorted(na, key=lambda x: x["property_id"]),
    }
    json.dump(m, open(os.path.join(ROOT, "MANIFEST.json"), "w"), indent=1)
    print("checks:", [c["property_id"] for c in checks], "n/a:", [x["property_id"] for x in m["not_applicable"]])

if __name__ == "__main__":
    main()
